import OrbitModel.Proofs.SnapshotRT
/-!
# `SaveSnapshot` racing with appends/joins   (C13)

`SaveSnapshot` (`stores/basestore/utils.go`) takes no lock. It reads `oplog.Heads()` (state `L1`),
then `oplog.Len()` for the header's `Size` (state `L2`), then `oplog.GetEntries()` for the records
(state `L3`). The entry map only grows at its end: `L2.entries = L1.entries ++ x`,
`L3.entries = L2.entries ++ y`.

`saveRacing_load`: the snapshot written loads back (into a fresh store) as the state at the FIRST
read: same entries, `Values()` and sorted heads as `L1`. Why: the loader reads exactly
`Size = |L2.entries|` records, a prefix of what was written; it joins them with `L1`'s heads into
an empty log, and `difference` only walks DOWN from those heads.

Hypothesis added with respect to `save_load` (see `hclosed` below): no entry that arrived between
the first and the second read is a `next` of an entry of `L1`. A `Good` log may have holes (links to
entries it does not hold); if a racing join fills such a hole, the walk from `L1`'s heads goes
through it and the loaded log holds it too (`SnapshotRaceEx.lean`, `hole_filled_is_loaded`). The
hypothesis follows from `Closed L1` (`saveRacing_load_closed`), e.g. for a log only ever appended to.
-/
namespace Orbit.Snap

/-- `save` is `saveRacing` with the three reads seeing the same state -/
theorem save_eq_saveRacing (ser : Entry → List Nat) (serHeader : Image → List Nat) (L : Log) :
    save ser serHeader L = saveRacing ser serHeader L L L := rfl

/-! ### The byte level -/

theorem encodeRecs_append_some : ∀ (rs ss : List (List Nat)) (out : List Nat),
    encodeRecs (rs ++ ss) = some out →
    ∃ a b, encodeRecs rs = some a ∧ encodeRecs ss = some b ∧ out = a ++ b := by
  intro rs
  induction rs with
  | nil => intro ss out h; exact ⟨[], out, rfl, h, rfl⟩
  | cons r rs ih =>
    intro ss out h
    rw [List.cons_append] at h
    obtain ⟨a0, rest, ha0, hrest, rfl⟩ := encodeRecs_cons_some h
    obtain ⟨a, b, ha, hb, rfl⟩ := ih ss rest hrest
    refine ⟨a0 ++ a, b, ?_, hb, by rw [List.append_assoc]⟩
    simp only [encodeRecs, ha0, ha]

/-- what a successful racing save wrote: the header, the records of `L2`'s entries, the records of
the entries that arrived after the size was read, the trailing zero -/
theorem saveRacing_some {ser : Entry → List Nat} {serHeader : Image → List Nat} {L1 L2 L3 : Log}
    {y : List Entry} {bs : List Nat} (h3 : L3.entries = L2.entries ++ y)
    (h : saveRacing ser serHeader L1 L2 L3 = some bs) :
    ∃ a b c, encodeRec (serHeader (racingImage L1 L2)) = some a ∧
      encodeRecs (L2.entries.map ser) = some b ∧ encodeRecs (y.map ser) = some c ∧
      bs = a ++ (b ++ (c ++ [0])) := by
  unfold saveRacing at h
  split at h
  · rename_i bs0 henc
    injection h with h
    obtain ⟨a, r, ha, hr, rfl⟩ := encodeRecs_cons_some henc
    rw [h3, List.map_append] at hr
    obtain ⟨b, c, hb, hc, rfl⟩ := encodeRecs_append_some _ _ _ hr
    exact ⟨a, b, c, ha, hb, hc, by rw [← h]; simp only [List.append_assoc]⟩
  · cases h

/-- `load` of a racing snapshot is the join of `L2`'s entries, with `L1`'s heads, into the empty log:
the records of `y` are never read -/
theorem load_saveRacing {acl : Acl} {ser : Entry → List Nat} {serHeader : Image → List Nat}
    {de : List Nat → Option Entry} {deHeader : List Nat → Option (Nat × List Entry × Nat)}
    {L1 L2 L3 : Log} {y : List Entry} {bs : List Nat} (h3 : L3.entries = L2.entries ++ y)
    (hde : ∀ e ∈ L2.entries, de (ser e) = some e)
    (hdh : deHeader (serHeader (racingImage L1 L2)) = some (L1.id, sortedHeads L1, L2.entries.length))
    (hs : saveRacing ser serHeader L1 L2 L3 = some bs) :
    load acl de deHeader bs =
      match join acl.canAppend (Log.empty L1.id) (ofList L2.entries) (ofList (sortedHeads L1)) L1.id with
      | .ok L' => some L'
      | .error _ => none := by
  obtain ⟨a, b, c, ha, hb, _, rfl⟩ := saveRacing_some h3 hs
  have h1 := decode_header ha (b ++ (c ++ [0]))
  have h2 := records_roundtrip (L2.entries.map ser) b (c ++ [0]) hb
  rw [List.length_map] at h2
  have h4 := mapM_de_ser L2.entries hde
  unfold load
  simp only [h1, hdh, h2, h4]
  cases join acl.canAppend (Log.empty L1.id) (ofList L2.entries) (ofList (sortedHeads L1)) L1.id <;> rfl

/-! ### The log level: joining a longer entry list with the OLD heads gives the old log back -/

/-- `Join` succeeds as soon as the NEW items are acceptable (not the whole incoming log) -/
theorem join_ok_of_new_acceptable {canAppend : Entry → Bool} (L : Log) (A headsA : OMap)
    (h : ∀ x ∈ difference A headsA L, acceptable canAppend x = true) :
    ∃ L', join canAppend L A headsA L.id = .ok L' := by
  have hall : (difference A headsA L).all (acceptable canAppend) = true := List.all_eq_true.mpr h
  unfold join joinChecked
  simp only [bne_self_eq_false, Bool.false_eq_true, if_false, hall, if_true, Except.map]
  exact ⟨_, rfl⟩

/-- `difference` walks down from the heads it is given: started from `L1`'s heads inside a larger
entry set whose extra entries are not linked from `L1`, it stays inside `L1` -/
theorem difference_sub_old {U : List Entry} (hU : HashDet U) (hM : ClockMono U) {L1 : Log}
    {E2 : List Entry} (hI : Inv U L1) (h2U : ∀ e ∈ E2, e ∈ U)
    (hclosed : ∀ p ∈ L1.entries, ∀ c ∈ E2, c.hash ∈ p.next → c ∈ L1.entries) (B : Log) :
    ∀ e ∈ difference (ofList E2) (ofList (sortedHeads L1)) B, e ∈ L1.entries := by
  have hAU : ∀ e ∈ ofList E2, e ∈ U := fun e he => h2U e (mem_of_mem_ofList he)
  have ok := difference_ok (hashDet_sub hU hAU) (ofList (sortedHeads L1)) B
  have key : ∀ (n : Nat) (e : Entry), e ∈ difference (ofList E2) (ofList (sortedHeads L1)) B →
      ((difference (ofList E2) (ofList (sortedHeads L1)) B).filter (fun z => Entry.lt e z)).length < n →
      e ∈ L1.entries := by
    intro n
    induction n with
    | zero => intro e _ h; omega
    | succ n ih =>
      intro e he hlen
      have heA : e ∈ ofList E2 := (ok.item e he).1
      rcases ok.why e he with hh | ⟨e', he', hn⟩
      · obtain ⟨x, hx, hxe⟩ := List.mem_map.mp hh
        have hxL : x ∈ L1.entries :=
          ((hI.heads x).mp (mem_sortedHeads.mp (mem_of_mem_ofList hx))).1
        exact (hU x (hI.sub x hxL) e (hAU e heA) hxe) ▸ hxL
      · have he'A : e' ∈ ofList E2 := (ok.item e' he').1
        have hlt : Entry.lt e e' = true := hM e' (hAU e' he'A) e (hAU e heA) hn
        have hless := filter_len_lt (fun z => Entry.lt e z) (fun z => Entry.lt e' z)
          (difference (ofList E2) (ofList (sortedHeads L1)) B)
          (fun z _ hz => Entry.lt_trans e e' z hlt hz) e' he' hlt (Entry.lt_irrefl e')
        exact hclosed e' (ih e' he' (by omega)) e (mem_of_mem_ofList heA) hn
  intro e he
  exact key _ e he (Nat.lt_succ_self _)

/-- ... and it takes all of `L1` (into an empty log) -/
theorem difference_sup_old {U : List Entry} (hU : HashDet U) (hM : ClockMono U) {L1 : Log}
    {E2 : List Entry} (hI : Inv U L1) (h2U : ∀ e ∈ E2, e ∈ U) (hsub : ∀ e ∈ L1.entries, e ∈ E2)
    (hid : ∀ e ∈ E2, e.logId = L1.id) :
    ∀ e ∈ L1.entries, e ∈ difference (ofList E2) (ofList (sortedHeads L1)) (Log.empty L1.id) := by
  have hmem := mem_ofList hU h2U
  have hHU : ∀ e ∈ sortedHeads L1, e ∈ U := fun e he =>
    hI.sub e ((hI.heads e).mp (mem_sortedHeads.mp he)).1
  have hA : Honest U (ofList E2) (ofList (sortedHeads L1)) :=
    ⟨fun e he => h2U e (mem_of_mem_ofList he), fun e he =>
      (hmem e).mpr (hsub e ((hI.heads e).mp (mem_sortedHeads.mp (mem_of_mem_ofList he))).1)⟩
  have hidA : ∀ e ∈ ofList E2, e.logId = (Log.empty L1.id).id := fun e he => hid e ((hmem e).mp he)
  have hfresh : ∀ e ∈ ofList E2, has (Log.empty L1.id).entries e.hash = false := fun _ _ => rfl
  intro e he
  obtain ⟨h, hh, d⟩ := sortedHeads_cover hM hI e he
  obtain ⟨x, hx, rfl⟩ := List.mem_map.mp hh
  have hxH : x ∈ ofList (sortedHeads L1) := (mem_ofList hU hHU x).mpr hx
  have hxD : x ∈ difference (ofList E2) (ofList (sortedHeads L1)) (Log.empty L1.id) := by
    rcases heads_complete hU (Log.empty L1.id) _ _ hA (by simp [Log.empty]) hidA x hxH with h | h
    · simp [Log.empty] at h
    · exact h
  have d' : Desc (asLog (ofList E2)) x.hash e.hash :=
    d.mono (L' := asLog (ofList E2)) (fun z hz => (hmem z).mpr (hsub z hz))
  obtain ⟨z, hz, hze⟩ := difference_desc hU (Log.empty L1.id) _ (ofList (sortedHeads L1)) hA.sub hidA
    hfresh d' ⟨x, hxD, rfl⟩
  have hzA : z ∈ ofList E2 := (difference_item _ _ _ z hz).1
  exact (hU z (hA.sub z hzA) e (hI.sub e he) hze) ▸ hz

/-- **joining the entries of a later state with the heads of an earlier one into the empty log gives
the earlier log's entries** -/
theorem rejoin_old {U : List Entry} (hU : HashDet U) (hM : ClockMono U) {canAppend : Entry → Bool}
    {L1 : Log} {E2 : List Entry} (hI : Inv U L1) (h2U : ∀ e ∈ E2, e ∈ U)
    (hsub : ∀ e ∈ L1.entries, e ∈ E2) (hid : ∀ e ∈ E2, e.logId = L1.id)
    (hclosed : ∀ p ∈ L1.entries, ∀ c ∈ E2, c.hash ∈ p.next → c ∈ L1.entries)
    (hacc : ∀ e ∈ L1.entries, canAppend e = true ∧ e.sigOk = true) :
    ∃ L', join canAppend (Log.empty L1.id) (ofList E2) (ofList (sortedHeads L1)) L1.id = .ok L' ∧
      (∀ e, e ∈ L'.entries ↔ e ∈ L1.entries) ∧ Inv U L' ∧ L'.entries.Nodup := by
  have hmem := mem_ofList hU h2U
  have hA : Honest U (ofList E2) (ofList (sortedHeads L1)) :=
    ⟨fun e he => h2U e (mem_of_mem_ofList he), fun e he =>
      (hmem e).mpr (hsub e ((hI.heads e).mp (mem_sortedHeads.mp (mem_of_mem_ofList he))).1)⟩
  have hidA : ∀ e ∈ ofList E2, e.logId = (Log.empty L1.id).id := fun e he => hid e ((hmem e).mp he)
  have hdown := difference_sub_old hU hM hI h2U hclosed (Log.empty L1.id)
  obtain ⟨L', hj⟩ := join_ok_of_new_acceptable (canAppend := canAppend) (Log.empty L1.id)
    (ofList E2) (ofList (sortedHeads L1)) (fun x hx => by
      obtain ⟨h1, h2⟩ := hacc x (hdown x hx)
      simp [acceptable, h1, h2])
  have hE := inv_empty U L1.id
  refine ⟨L', hj, ?_, inv_join_honest hU hE hA hidA hj, nodup_join (by simp [Log.empty]) hj⟩
  intro e
  rw [join_entries hU hE hA rfl hj e]
  constructor
  · rintro (h | h)
    · simp [Log.empty] at h
    · exact hdown e h
  · exact fun h => Or.inr (difference_sup_old hU hM hI h2U hsub hid e h)

/-! ### Racing save, then load -/

/-- **Racing save / load**, with the codec hypotheses only on what is actually read back. -/
theorem saveRacing_load' {U : List Entry} {acl : Acl} {ser : Entry → List Nat}
    {serHeader : Image → List Nat} {de : List Nat → Option Entry}
    {deHeader : List Nat → Option (Nat × List Entry × Nat)} {L1 L2 L3 : Log} {x y : List Entry}
    {bs : List Nat}
    (hde : ∀ e ∈ L2.entries, de (ser e) = some e)
    (hdh : deHeader (serHeader (racingImage L1 L2)) = some (L1.id, sortedHeads L1, L2.entries.length))
    (hU : HashDet U) (hT : TieFree U) (hM : ClockMono U) (hG : Good U L1)
    (hacc : ∀ e ∈ L1.entries, acl.canAppend e = true ∧ e.sigOk = true)
    (h2 : L2.entries = L1.entries ++ x) (h3 : L3.entries = L2.entries ++ y)
    (hxU : ∀ e ∈ x, e ∈ U) (hid : ∀ e ∈ L2.entries, e.logId = L1.id)
    (hclosed : ∀ p ∈ L1.entries, ∀ c ∈ x, c.hash ∈ p.next → c ∈ L1.entries)
    (hs : saveRacing ser serHeader L1 L2 L3 = some bs) :
    ∃ L', load acl de deHeader bs = some L' ∧ (∀ e, e ∈ L'.entries ↔ e ∈ L1.entries) ∧
      values L' = values L1 ∧ sortedHeads L' = sortedHeads L1 := by
  have hI := hG.inv
  have h2U : ∀ e ∈ L2.entries, e ∈ U := by
    intro e he
    rw [h2] at he
    rcases List.mem_append.mp he with h | h
    · exact hI.sub e h
    · exact hxU e h
  have hsub : ∀ e ∈ L1.entries, e ∈ L2.entries := fun e he => by
    rw [h2]; exact List.mem_append_left _ he
  have hcl : ∀ p ∈ L1.entries, ∀ c ∈ L2.entries, c.hash ∈ p.next → c ∈ L1.entries := by
    intro p hp c hc hn
    rw [h2] at hc
    rcases List.mem_append.mp hc with h | h
    · exact h
    · exact hclosed p hp c h hn
  obtain ⟨L', hj, hent, hI', hnd'⟩ :=
    rejoin_old hU hM (canAppend := acl.canAppend) hI h2U hsub hid hcl hacc
  refine ⟨L', ?_, hent, values_unique hU hT hM L' L1 hI' hnd' hI hG.nodup hent,
    sortedHeads_unique hT L' L1 hI' hI hent⟩
  rw [load_saveRacing h3 hde hdh hs, hj]

/-- **A snapshot written while the log grows loads back as the state at the first read**
(`oplog.Heads()`): same entries, same `Values()`, same sorted heads as `L1`.
Hypotheses beyond `save_load`'s: the log grew at its end between the reads (`h2`, `h3`); the entries
that arrived before the size was read are genuine entries of this log (`hxU`, `hid`) -- they need
NOT be acceptable to the access controller, and nothing at all is asked of `y`; and `hclosed`: none
of them fills a hole of `L1` (is named by a `next` of an entry of `L1` without being in `L1`). -/
theorem saveRacing_load {U : List Entry} {acl : Acl} {ser : Entry → List Nat}
    {serHeader : Image → List Nat} {de : List Nat → Option Entry}
    {deHeader : List Nat → Option (Nat × List Entry × Nat)} {L1 L2 L3 : Log} {x y : List Entry}
    {bs : List Nat}
    (hde : ∀ e, de (ser e) = some e)
    (hdh : ∀ img, deHeader (serHeader img) = some (img.id, img.heads, img.entries.length))
    (hU : HashDet U) (hT : TieFree U) (hM : ClockMono U) (hG : Good U L1)
    (hacc : ∀ e ∈ L1.entries, acl.canAppend e = true ∧ e.sigOk = true)
    (h2 : L2.entries = L1.entries ++ x) (h3 : L3.entries = L2.entries ++ y)
    (hxU : ∀ e ∈ x, e ∈ U) (hid : ∀ e ∈ L2.entries, e.logId = L1.id)
    (hclosed : ∀ p ∈ L1.entries, ∀ c ∈ x, c.hash ∈ p.next → c ∈ L1.entries)
    (hs : saveRacing ser serHeader L1 L2 L3 = some bs) :
    ∃ L', load acl de deHeader bs = some L' ∧ (∀ e, e ∈ L'.entries ↔ e ∈ L1.entries) ∧
      values L' = values L1 ∧ sortedHeads L' = sortedHeads L1 :=
  saveRacing_load' (fun e _ => hde e) (hdh (racingImage L1 L2)) hU hT hM hG hacc h2 h3 hxU hid
    hclosed hs

/-- a log without holes satisfies `hclosed` -/
theorem closed_no_fill {U : List Entry} (hU : HashDet U) {L1 : Log} {x : List Entry}
    (hsub : ∀ e ∈ L1.entries, e ∈ U) (hxU : ∀ e ∈ x, e ∈ U) (hC : Closed L1) :
    ∀ p ∈ L1.entries, ∀ c ∈ x, c.hash ∈ p.next → c ∈ L1.entries := by
  intro p hp c hc hn
  obtain ⟨c', hc', hh⟩ := (has_iff _ _).mp (hC p hp c.hash hn)
  exact (hU c' (hsub c' hc') c (hxU c hc) hh) ▸ hc'

/-- the same for a log closed under `next` (e.g. one only ever appended to, or fully replicated):
no extra hypothesis on what arrives in between -/
theorem saveRacing_load_closed {U : List Entry} {acl : Acl} {ser : Entry → List Nat}
    {serHeader : Image → List Nat} {de : List Nat → Option Entry}
    {deHeader : List Nat → Option (Nat × List Entry × Nat)} {L1 L2 L3 : Log} {x y : List Entry}
    {bs : List Nat}
    (hde : ∀ e, de (ser e) = some e)
    (hdh : ∀ img, deHeader (serHeader img) = some (img.id, img.heads, img.entries.length))
    (hU : HashDet U) (hT : TieFree U) (hM : ClockMono U) (hG : Good U L1) (hC : Closed L1)
    (hacc : ∀ e ∈ L1.entries, acl.canAppend e = true ∧ e.sigOk = true)
    (h2 : L2.entries = L1.entries ++ x) (h3 : L3.entries = L2.entries ++ y)
    (hxU : ∀ e ∈ x, e ∈ U) (hid : ∀ e ∈ L2.entries, e.logId = L1.id)
    (hs : saveRacing ser serHeader L1 L2 L3 = some bs) :
    ∃ L', load acl de deHeader bs = some L' ∧ (∀ e, e ∈ L'.entries ↔ e ∈ L1.entries) ∧
      values L' = values L1 ∧ sortedHeads L' = sortedHeads L1 :=
  saveRacing_load hde hdh hU hT hM hG hacc h2 h3 hxU hid
    (closed_no_fill hU hG.inv.sub hxU hC) hs

end Orbit.Snap
