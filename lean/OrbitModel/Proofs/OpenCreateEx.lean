import OrbitModel.Proofs.OpenCreateOpen
/-!
# `Create` / `Open`: concrete runs with a toy manifest hash   (C14)

Every refusal and every success of the model is reached; the hypotheses of the theorems of
`OpenCreate.lean` / `OpenCreateOpen.lean` hold on a concrete instance (non-vacuity).
The kernel evaluates strings lazily, so `parse (print (determine ..))` in one `decide` does not
terminate in reasonable time: the successful `Create` runs go through `create_of`, whose side
conditions are each checked by `decide`.
-/
namespace Orbit.OC.Example
open Orbit.Path Orbit.OC

instance {α : Type} [DecidableEq α] : DecidableEq (Except Err α) := fun a b =>
  match a, b with
  | .ok x, .ok y => if h : x = y then isTrue (h ▸ rfl) else isFalse (fun e => h (by injection e))
  | .error x, .error y => if h : x = y then isTrue (h ▸ rfl) else isFalse (fun e => h (by injection e))
  | .ok _, .error _ => isFalse (fun e => by cases e)
  | .error _, .ok _ => isFalse (fun e => by cases e)

/-- toy manifest hash: `@name.type.w1.w2...` (a CID for `atCid`; a segment when the name has no `/`) -/
def tH (n t : String) (w : List String) : String := "@" ++ n ++ "." ++ t ++ "." ++ ".".intercalate w

def shopM : Manifest := ⟨"shop", "kv", ["me"]⟩
def shopA : Addr := ⟨"@shop.kv.me", "shop"⟩

/-- a fresh instance, identity `me`, two store types -/
def s0 : St := { self := "me", types := ["kv", "log"], «local» := [], net := [] }
/-- after `Create("shop", "kv")` -/
def s1 : St := { s0 with «local» := [shopA], net := [("@shop.kv.me", shopM)] }
/-- another instance that can fetch the manifest but has no local data -/
def s2 : St := { self := "you", types := ["kv"], «local» := [], net := [("@shop.kv.me", shopM)] }

/-! ### `DetermineAddress` / `Create`: the refusals, in the order of the code -/

example : createDB atCid tH s0 "shop" "nope" [] false = (.error .invalidType, s0) := by decide
example : createDB atCid tH s0 "/orbitdb/@V/x" "kv" [] false = (.error .nameIsAddress, s0) := by decide
/-- the store type is checked before the name -/
example : createDB atCid tH s0 "/orbitdb/@V/x" "nope" [] false = (.error .invalidType, s0) := by decide
/-- a name that escapes is refused -- after its manifest was written (U2) -/
example : createDB atCid tH s0 "../@V/x" "kv" ["w"] false =
    (.error .badName, { s0 with net := [("@../@V/x.kv.w", ⟨"../@V/x", "kv", ["w"]⟩)] }) := by decide

example : determineAddr atCid tH s0 "shop" "kv" [] = (.ok shopA, { s0 with net := s1.net }) := by decide

/-- **a successful `Create`**: every hypothesis of `create_of` holds -/
theorem create_shop : create atCid tH s0 "shop" "kv" {} = (.ok (shopA, "kv", ["me"]), s1) := by
  rw [create_of (a := shopA) (by decide) (by decide) (by decide) (by decide) (by decide)]
  decide

/-- **creating it again without overwrite is refused**; the instance is unchanged but for the
re-written manifest block -/
theorem create_shop_again :
    create atCid tH s1 "shop" "kv" {} =
      (.error .exists, { s1 with net := ("@shop.kv.me", shopM) :: s1.net }) ∧
    (create atCid tH s1 "shop" "kv" {}).2.local = s1.local :=
  have h := create_refused_when_exists (isCid := atCid) (H := tH) s1 "shop" "kv" {} shopA
    (by decide) (by decide) rfl
  ⟨h.1.trans (by decide), h.2.1⟩

/-- directly -/
example : (createDB atCid tH s1 "shop" "kv" [] false).1 = .error .exists := by decide

/-- with overwrite it succeeds (nothing is deleted: the key is simply written again) -/
example : (create atCid tH s1 "shop" "kv" { overwrite := true }).1 = .ok (shopA, "kv", ["me"]) :=
  create_overwrite_ok s1 "shop" "kv" { overwrite := true } shopA (by decide) (by decide) (by decide) rfl

/-- another write list = another database: not refused -/
example : (determineAddr atCid tH s1 "shop" "kv" ["me", "you"]).1 = .ok ⟨"@shop.kv.me.you", "shop"⟩ := by
  decide

/-! ### `Open` -/

example : print shopA = "/orbitdb/@shop.kv.me/shop" := by decide

theorem parse_shop : parse atCid "/orbitdb/@shop.kv.me/shop" = some shopA :=
  parse_of_printed (by decide) (by decide)

theorem shop_named : named atCid shopA ⟨"shop", "kv", ["me"]⟩ = true := by
  unfold named
  have : joinAddr shopA.root "shop" = "/orbitdb/@shop.kv.me/shop" := by decide
  simp only [this, parse_shop]
  decide

theorem canon_shop : canon atCid shopA = shopA :=
  canon_of_printed (by
    have : print shopA = "/orbitdb/@shop.kv.me/shop" := by decide
    rw [this]; exact parse_shop)

theorem named_s1 : Named atCid s1 shopA := named_of_fetch (m0 := ⟨"shop", "kv", ["me"]⟩) (by decide) shop_named
theorem named_s2 : Named atCid s2 shopA := named_of_fetch (m0 := ⟨"shop", "kv", ["me"]⟩) (by decide) shop_named

/-- same instance, local-only or not, with misleading options: the recorded type and write list -/
example : openDB atCid tH s1 "/orbitdb/@shop.kv.me/shop" true false "log" false =
    (.ok (shopA, "kv", ["me"]), s1) := by
  show «open» atCid tH s1 "/orbitdb/@shop.kv.me/shop" _ = _
  rw [open_valid _ parse_shop named_s1, canon_shop]; decide
example : openDB atCid tH s1 "/orbitdb/@shop.kv.me/shop" false true "" true =
    (.ok (shopA, "kv", ["me"]), s1) := by
  show «open» atCid tH s1 "/orbitdb/@shop.kv.me/shop" _ = _
  rw [open_valid _ parse_shop named_s1, canon_shop]; decide

/-- `create_then_open_same` applies to the run above -/
example : ∀ o', «open» atCid tH s1 (print shopA) o' = (.ok (shopA, "kv", ["me"]), s1) :=
  (create_then_open_same (isCid := atCid) (H := tH) s0 s1 "shop" "kv" {} shopA "kv" ["me"]
    (by decide) (by decide) create_shop).1

/-- the other instance: plain `Open` succeeds and records the database; a local-only `Open` is refused
before it and succeeds after it (finding F53; it was refused: U1) -/
example : openDB atCid tH s2 "/orbitdb/@shop.kv.me/shop" false false "" false =
    (.ok (shopA, "kv", ["me"]), addLocal s2 shopA) := by
  show «open» atCid tH s2 "/orbitdb/@shop.kv.me/shop" _ = _
  rw [open_valid _ parse_shop named_s2, canon_shop]; decide
example : openDB atCid tH s2 "/orbitdb/@shop.kv.me/shop" true false "" false =
    (.error .notLocal, s2) := by
  show «open» atCid tH s2 "/orbitdb/@shop.kv.me/shop" _ = _
  rw [open_valid _ parse_shop named_s2, canon_shop]; decide
example : (openDB atCid tH (openDB atCid tH s2 "/orbitdb/@shop.kv.me/shop" false false "" false).2
    "/orbitdb/@shop.kv.me/shop" true false "" false).1 = .ok (shopA, "kv", ["me"]) := by
  have h1 : (openDB atCid tH s2 "/orbitdb/@shop.kv.me/shop" false false "" false).1 = .ok (shopA, "kv", ["me"]) := by
    show («open» atCid tH s2 "/orbitdb/@shop.kv.me/shop" _).1 = _
    rw [open_valid _ parse_shop named_s2, canon_shop]; decide
  exact open_remote_then_localonly_succeeds s2 _ _ _ shopA _ parse_shop named_s2 (by
    have : print shopA = "/orbitdb/@shop.kv.me/shop" := by decide
    rw [this]; exact parse_shop) h1

/-- a manifest nobody serves -/
example : openDB atCid tH s0 "/orbitdb/@shop.kv.me/shop" false false "" false =
    (.error .noManifest, s0) := by
  show «open» atCid tH s0 "/orbitdb/@shop.kv.me/shop" _ = _
  rw [open_valid _ parse_shop (named_of_no_manifest (by decide)), canon_shop]; decide
/-- a manifest of a type this instance has not registered (`s2` knows `kv` only) -/
example : («open» atCid tH { s2 with net := [("@x", ⟨"x", "log", []⟩)] } "/orbitdb/@x/x" {}).1 =
    .error .unsupported := by
  have hpx : parse atCid "/orbitdb/@x/x" = some ⟨"@x", "x"⟩ := parse_of_printed (by decide) (by decide)
  rw [open_valid (a := ⟨"@x", "x"⟩) _ hpx
    (named_of_fetch (m0 := ⟨"x", "log", []⟩) (by decide) (by
      unfold named
      have : joinAddr (⟨"@x", "x"⟩ : Addr).root "x" = "/orbitdb/@x/x" := by decide
      simp only [this, hpx]
      decide)), canon_of_printed (a := ⟨"@x", "x"⟩) (by
        have : print (⟨"@x", "x"⟩ : Addr) = "/orbitdb/@x/x" := by decide
        rw [this]; exact hpx)]; decide
/-- **the path of the address is compared with the manifest's name** (finding F52; it was not: U7):
`/orbitdb/<root of "shop">/anything/else` is refused, it names no database -/
example : openDB atCid tH s2 "/orbitdb/@shop.kv.me/anything/else" false false "" false =
    (.error .nameMismatch, s2) := by
  show «open» atCid tH s2 "/orbitdb/@shop.kv.me/anything/else" _ = _
  exact open_misnamed_refused s2 _ _ ⟨"@shop.kv.me", "anything/else"⟩ ⟨"shop", "kv", ["me"]⟩
    (parse_of_printed (by decide) (by decide)) (by decide) (by
      unfold named
      have : joinAddr (⟨"@shop.kv.me", "anything/else"⟩ : Addr).root "shop" = "/orbitdb/@shop.kv.me/shop" := by decide
      simp only [this, parse_shop]
      decide) rfl
/-- **an address that climbs out of its root is refused as an address** (finding F28): it prints as
another database's address -/
example : parse atCid "/orbitdb/@shop.kv.me/../@other/x" = none := by
  unfold parse
  have h0 : parse0 atCid "/orbitdb/@shop.kv.me/../@other/x" = some ⟨"@shop.kv.me", "../@other/x"⟩ := by decide
  rw [h0]
  have hg : staysBelowRoot atCid ⟨"@shop.kv.me", "../@other/x"⟩ = false := by
    unfold staysBelowRoot
    have hp : print ⟨"@shop.kv.me", "../@other/x"⟩ = "/orbitdb/@other/x" := by decide
    rw [hp]
    have h1 : parse0 atCid "/orbitdb/@other/x" = some ⟨"@other", "x"⟩ := by decide
    rw [h1]; decide
  simp [hg]

/-! ### `Open` of something that is not an address -/

theorem parse_shop_name : parse atCid "shop" = none := parse_none_of_parse0 (by decide)
example : openDB atCid tH s1 "shop" false false "kv" false = (.error .createFalse, s1) :=
  open_invalid_no_create s1 "shop" _ parse_shop_name rfl
example : openDB atCid tH s1 "shop" false true "" false = (.error .noType, s1) :=
  open_invalid_no_type s1 "shop" _ parse_shop_name rfl rfl

/-- with `Create` and a type it creates, overwrite forced: the existing `shop` is NOT refused -/
example : («open» atCid tH s1 "shop" { create := true, storeType := "kv" }).1 =
    .ok (shopA, "kv", ["me"]) :=
  open_create_over_existing s1 "shop" { create := true, storeType := "kv" } shopA
    parse_shop_name rfl (by decide) (by decide) (by decide) (by decide)

/-- ... and on a fresh instance it creates the database (local-only included: `Create` wrote the key) -/
example : «open» atCid tH s0 "shop" { create := true, storeType := "kv", localOnly := true } =
    (.ok (shopA, "kv", ["me"]), s1) := by
  rw [open_invalid_creates _ _ _ parse_shop_name rfl (by decide),
    create_of (a := shopA) (by decide) (by decide) (by decide) (by decide) (by decide)]
  decide

end Orbit.OC.Example
