import OrbitModel.Proofs.Durable
/-!
# In a complete log of honestly clocked entries no clock time exceeds the number of entries   (C19)

go-ipfs-log gives a new entry the time `max(clock, heads) + 1`, and the clock of a log is the largest
time among its heads: an honest entry is exactly one tick above one of the entries it names in `next`
(or has time ≤ 1). Following those parents down from an entry with time `t` meets the times
`t, t-1, …, 1`, all inside any log that is closed under `next`: such a log holds at least `t` entries.
-/
namespace Orbit

/-- honest Lamport clocks over the universe of entries -/
def ClockTight (U : List Entry) : Prop :=
  ∀ e ∈ U, e.time ≤ 1 ∨ ∃ p ∈ U, p.hash ∈ e.next ∧ e.time = p.time + 1

theorem length_filter_time_succ (l : List Entry) (k : Nat) :
    (l.filter (fun e => decide (e.time ≤ k + 1))).length =
      (l.filter (fun e => decide (e.time ≤ k))).length + (l.filter (fun e => decide (e.time = k + 1))).length := by
  induction l with
  | nil => simp
  | cons a t ih =>
    simp only [List.filter_cons]
    by_cases h1 : a.time ≤ k
    · have d1 : decide (a.time ≤ k) = true := decide_eq_true h1
      have d2 : decide (a.time ≤ k + 1) = true := decide_eq_true (by omega)
      have d3 : decide (a.time = k + 1) = false := decide_eq_false (by omega)
      rw [d1, d2, d3]; simp [ih]; omega
    · by_cases h3 : a.time = k + 1
      · have d1 : decide (a.time ≤ k) = false := decide_eq_false h1
        have d2 : decide (a.time ≤ k + 1) = true := decide_eq_true (by omega)
        have d3 : decide (a.time = k + 1) = true := decide_eq_true h3
        rw [d1, d2, d3]; simp [ih]; omega
      · have d1 : decide (a.time ≤ k) = false := decide_eq_false h1
        have d2 : decide (a.time ≤ k + 1) = false := decide_eq_false (by omega)
        have d3 : decide (a.time = k + 1) = false := decide_eq_false h3
        rw [d1, d2, d3]; simp [ih]

/-- a closed log that holds an entry with time `k ≥ 1` holds at least `k` entries with time ≤ `k` -/
theorem count_le_of_mem {U : List Entry} (hU : HashDet U) (hT : ClockTight U) {L : Log}
    (hs : ∀ e ∈ L.entries, e ∈ U) (hc : Closed L) :
    ∀ k, ∀ e ∈ L.entries, e.time = k → 1 ≤ k → k ≤ (L.entries.filter (fun e => decide (e.time ≤ k))).length := by
  intro k
  induction k with
  | zero => intro e _ _ h; omega
  | succ k ih =>
    intro e he ht _
    have hmem : e ∈ L.entries.filter (fun e => decide (e.time = k + 1)) := by
      simp [List.mem_filter, he, ht]
    have hpos : 1 ≤ (L.entries.filter (fun e => decide (e.time = k + 1))).length :=
      List.length_pos_of_mem hmem
    rw [length_filter_time_succ]
    by_cases hk : k = 0
    · omega
    · rcases hT e (hs e he) with h1 | ⟨p, hpU, hpn, hpt⟩
      · omega
      · have hhas := hc e he p.hash hpn
        obtain ⟨p', hp', hph⟩ := (has_iff _ _).1 hhas
        have : p' = p := hU p' (hs p' hp') p hpU hph
        subst this
        have := ih p' hp' (by omega) (by omega)
        omega

/-- **no clock time exceeds the number of entries** of a complete log of honestly clocked entries -/
theorem time_le_length {U : List Entry} (hU : HashDet U) (hT : ClockTight U) {L : Log}
    (hs : ∀ e ∈ L.entries, e ∈ U) (hc : Closed L) : ∀ e ∈ L.entries, e.time ≤ L.entries.length := by
  intro e he
  by_cases h : 1 ≤ e.time
  · have h1 := count_le_of_mem hU hT hs hc e.time e he rfl h
    have h2 := List.length_filter_le (fun e' : Entry => decide (e'.time ≤ e.time)) L.entries
    omega
  · omega

end Orbit
