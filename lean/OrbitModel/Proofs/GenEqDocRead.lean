import OrbitModel.Generated.GenDocRead
import OrbitModel.Model.Order
/-!
# Regenerated Go fragment = hand-written model (tie 2): document reads take one state of the view
-/
namespace Orbit

theorem gen_docRead_order : Gen.docQueryOrder = Order.docRead ∧ Gen.docGetOrder = Order.docRead := by decide

end Orbit
