import OrbitModel.Proofs.Auth
/-!
# C10 (store part): a rejected log in a batch never prevents the valid ones from being merged

The replicator (`batchSize = 1`) hands `replicationLoadComplete` one single-entry log `([e],[e])`
per fetched entry.  The repaired `joinAll` skips a rejected log and goes on; so every acceptable
entry of this log id in the batch ends up held, wherever the rejected logs are.
-/
namespace Orbit

/-- over the single-entry map `[e]`, once `e` is in the result the work-list loop adds nothing -/
theorem diffLoop_single (e : Entry) (L : Log) :
    ∀ (fuel : Nat) (stack trav : List Nat), diffLoop [e] L fuel stack trav [e] = [e] := by
  intro fuel
  induction fuel with
  | zero => intro _ _; rfl
  | succ f ih =>
    intro stack trav
    cases stack with
    | nil => rfl
    | cons hd stack =>
      simp only [diffLoop]
      cases hg : get [e] hd with
      | none => exact ih _ _
      | some eA =>
        have heq : eA = e := List.mem_singleton.mp (get_some hg).1
        subst heq
        have hset : set [eA] eA = [eA] := by unfold set; simp [has]
        simp only
        split
        · rw [hset]; exact ih _ _
        · exact ih _ _

/-- **the `difference` of the replicator's single-entry log**: exactly `[e]` when `e` is not held
and carries our log id -/
theorem difference_single (e : Entry) (L : Log) (hid : e.logId = L.id)
    (hnot : has L.entries e.hash = false) : difference [e] [e] L = [e] := by
  unfold difference
  have hg : get [e] e.hash = some e := by simp [get]
  have hset : set ([] : OMap) e = [e] := by unfold set; simp [has]
  simp only [List.map, List.length_singleton, diffLoop, hg, hnot, hid, Bool.not_false, beq_self_eq_true,
    Bool.and_self, if_true, hset]
  exact diffLoop_single e L _ _ _

/-- … and empty when `e` is already held or belongs to another log -/
theorem difference_single_skip (e : Entry) (L : Log)
    (h : has L.entries e.hash = true ∨ e.logId ≠ L.id) : difference [e] [e] L = [] := by
  unfold difference
  have hg : get [e] e.hash = some e := by simp [get]
  have hc : (!has L.entries e.hash && e.logId == L.id) = false := by
    rcases h with h | h
    · simp [h]
    · simp [h]
  simp only [List.map, List.length_singleton, diffLoop, hg, hc, Bool.false_eq_true, if_false]
  cases (nexts [e]).length <;> rfl

/-- joining the single-entry log of an acceptable, not yet held entry of our log succeeds and the
entry becomes a member -/
theorem join_single {ca : Entry → Bool} (L : Log) (e : Entry) (hid : e.logId = L.id)
    (hacc : acceptable ca e = true) (hnot : has L.entries e.hash = false) :
    ∃ L', join ca L [e] [e] L.id = .ok L' ∧ L'.entries = L.entries ++ [e] := by
  have hD := difference_single e L hid hnot
  have hall : (difference [e] [e] L).all (acceptable ca) = true := by rw [hD]; simp [hacc]
  refine ⟨bumpClock (joinCore L [e] [e] L.id), ?_, ?_⟩
  · simp only [join, joinChecked, bne_self_eq_false, Bool.false_eq_true, if_false, hall, if_true,
      Except.map]
  · rw [joinCore_eq L [e] [e] L.id rfl, hD]
    show merge L.entries [e] = L.entries ++ [e]
    simp [merge, set, hnot]

/-- `joinAll` keeps every held hash held -/
theorem joinAll_has (acl : Acl) (logs : List (OMap × OMap)) (L : Log) (h : Nat)
    (hh : has L.entries h = true) : has (joinAll acl L logs).entries h = true := by
  obtain ⟨y, hy, hyh⟩ := (has_iff _ _).mp hh
  exact (has_iff _ _).mpr ⟨y, joinAllA_mono acl logs L y hy, hyh⟩

/-- **C10 (store part).** Every acceptable entry of this log that the batch contains as a
single-entry log is held after `replicationLoadComplete` — merged, or held already — whatever other
logs (rejected or not, of any shape) the batch contains and wherever they stand. -/
theorem joinAll_accepts (acl : Acl) (logs : List (OMap × OMap)) :
    ∀ (L : Log) (e : Entry), ([e], [e]) ∈ logs → e.logId = L.id →
      acceptable acl.canAppend e = true → has (joinAll acl L logs).entries e.hash = true := by
  induction logs with
  | nil => intro L e hm; simp at hm
  | cons p rest ih =>
    intro L e hm hid hacc
    obtain ⟨es, hs⟩ := p
    rcases List.mem_cons.mp hm with heq | hm
    · -- this is the log of `e`
      have h1 : es = [e] := (Prod.mk.inj heq).1.symm
      have h2 : hs = [e] := (Prod.mk.inj heq).2.symm
      subst h1; subst h2
      cases hheld : has L.entries e.hash
      · obtain ⟨L', hj, hent⟩ := join_single (ca := acl.canAppend) L e hid hacc hheld
        unfold joinAll
        rw [hj]
        apply joinAll_has
        rw [hent]
        exact (has_iff _ _).mpr ⟨e, List.mem_append_right _ List.mem_cons_self, rfl⟩
      · unfold joinAll
        cases hj : join acl.canAppend L [e] [e] L.id with
        | error err => exact joinAll_has acl rest L e.hash hheld
        | ok L' =>
          obtain ⟨y, hy, hyh⟩ := (has_iff _ _).mp hheld
          exact joinAll_has acl rest L' e.hash ((has_iff _ _).mpr ⟨y, join_mono hj y hy, hyh⟩)
    · -- the log of `e` comes later: whatever happens to this one, the log id is unchanged
      unfold joinAll
      cases hj : join acl.canAppend L es hs L.id with
      | error err => exact ih L e hm hid hacc
      | ok L' => exact ih L' e hm (by rw [hid, joinA_id hj]) hacc

/-- with hash determinism the held entry is `e` itself -/
theorem joinAll_accepts_mem {U : List Entry} (hU : HashDet U) (acl : Acl) (logs : List (OMap × OMap))
    (L : Log) (e : Entry) (heU : e ∈ U) (hsub : ∀ x ∈ (joinAll acl L logs).entries, x ∈ U)
    (hm : ([e], [e]) ∈ logs) (hid : e.logId = L.id) (hacc : acceptable acl.canAppend e = true) :
    e ∈ (joinAll acl L logs).entries := by
  obtain ⟨y, hy, hyh⟩ := (has_iff _ _).mp (joinAll_accepts acl logs L e hm hid hacc)
  exact (hU y (hsub y hy) e heU hyh) ▸ hy

/-- a rejected single-entry log leaves the log exactly as it was -/
theorem joinAll_skips (acl : Acl) (L : Log) (es hs : OMap) (rest : List (OMap × OMap)) (err : Err)
    (h : join acl.canAppend L es hs L.id = .error err) :
    joinAll acl L ((es, hs) :: rest) = joinAll acl L rest := by
  show (match join acl.canAppend L es hs L.id with
    | .ok L' => joinAll acl L' rest | .error _ => joinAll acl L rest) = _
  rw [h]

end Orbit
