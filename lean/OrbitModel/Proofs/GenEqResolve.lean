import OrbitModel.Generated.GenResolve
/-!
# Regenerated Go fragment = hand-written model (tie 2)
-/
namespace Orbit

theorem gen_resolve_err_checked : Gen.resolveErrChecked = true := by decide

end Orbit
