import OrbitModel.Proofs.AuthBatch
/-!
# C03 / C04 / C10: pinned-tree witnesses and non-vacuity

Two writers (identities 1 and 2) and an attacker (identity 7, not in the write list), database 9.
Everything here is closed by `decide` / `rfl` on the executable model.
-/
namespace Orbit.AuthExample

def acl : Acl := { ids := [1, 2] }
def ca : Entry → Bool := acl.canAppend

/-- writer 1's first entry -/
def a : Entry := { hash := 1, logId := 9, time := 1, cid := 0, next := [], ident := 1, key := 1 }
/-- writer 2, **authorised but lying about its clock**: links to `a` (time 1) yet claims time 0 -/
def b : Entry := { hash := 2, logId := 9, time := 0, cid := 1, next := [1], ident := 2, key := 2 }
/-- writer 1's second entry, concurrent with `b` -/
def c : Entry := { hash := 3, logId := 9, time := 2, cid := 0, next := [1], ident := 1, key := 1 }
/-- the attacker under its own identity -/
def x1 : Entry := { hash := 11, logId := 9, time := 5, cid := 2, next := [1], ident := 7, key := 7 }
/-- the attacker naming writer 1 but signing with its own key, identity block not writer 1's (F3) -/
def x2 : Entry := { hash := 12, logId := 9, time := 5, cid := 2, next := [1], ident := 1, key := 7,
                    identOk := false }
/-- writer 1's identity, signature does not verify -/
def x3 : Entry := { hash := 13, logId := 9, time := 5, cid := 0, next := [1], ident := 1, key := 1,
                    sigOk := false }
/-- a valid entry of writer 1 written for database 8 -/
def x4 : Entry := { hash := 14, logId := 8, time := 5, cid := 0, next := [], ident := 1, key := 1 }
/-- writer 1's entry, content does not hash to the claimed address -/
def x5 : Entry := { hash := 15, logId := 9, time := 5, cid := 0, next := [1], ident := 1, key := 1,
                    hashOk := false }

def U : List Entry := [a, b, c, x1, x2, x3, x4, x5]

theorem hU : HashDet U := by unfold HashDet; decide

/-- the universe is *not* an honest one: `b` forges its clock, so the order-based theorems of
`LogValues`/`LogReach` do not apply — the ones of `Auth` do -/
example : ¬ ClockMono U := by unfold ClockMono; decide

/-! ### Pinned-tree witnesses (repaired defects) -/

/-- **F3**: the pinned `CanAppend` looks only at the identity id named by the entry, so it accepts
the attacker's entry naming writer 1; the repaired one rejects it -/
example : acl.canAppendPinned x2 = true ∧ acl.canAppend x2 = false := by decide

/-- the attacker under its own identity is rejected by both -/
example : acl.canAppendPinned x1 = false ∧ acl.canAppend x1 = false := by decide

/-- **F4** (foreign head), at the `Log` level: `joinCore` of a log whose entry carries another log
id puts it into `heads` but not into `entries` — heads ⊄ entries, `Inv` is broken.  This is why
`AStep.joinOk` carries the log-id hypothesis (the repaired replicator's filter). -/
example : (joinCore (Log.empty 9) [x4] [x4] 9).heads = [x4] ∧
          (joinCore (Log.empty 9) [x4] [x4] 9).entries = [] := by decide

/-- the checked `join` does not catch it either: nothing is a *new item*, so nothing is verified -/
example : ∃ L', join ca (Log.empty 9) [x4] [x4] 9 = .ok L' ∧ L'.heads = [x4] ∧ L'.entries = [] :=
  ⟨_, rfl, by decide⟩

/-- **F6**: with the pinned `replicationLoadComplete` a rejected first log makes the valid second
one unreachable; the repaired one merges it -/
example : (joinAllPinned acl (Log.empty 9) [([x1], [x1]), ([a], [a])]).1.entries = [] ∧
          (joinAllPinned acl (Log.empty 9) [([x1], [x1]), ([a], [a])]).2 = false ∧
          (joinAll acl (Log.empty 9) [([x1], [x1]), ([a], [a])]).entries = [a] := by decide

/-! ### A reachable log under attack -/

def okOr (x : Except Err Log) (d : Log) : Log := match x with | .ok l => l | .error _ => d

def E  : Log := Log.empty 9
/-- writer 1 appends `a` -/
def P1 : Log := (append ca E (fun _ _ => a)).1
/-- the attacker's local write is denied -/
def P2 : Log := (append ca P1 (fun _ _ => x1)).1
/-- writer 1 appends `c` -/
def P3 : Log := (append ca P2 (fun _ _ => c)).1
/-- writer 2's log (with the forged clock) arrives and is merged -/
def P4 : Log := okOr (join ca P3 [a, b] [b] 9) P3

/-- the attacker's logs, each rejected: own identity; stolen identity; bad signature -/
example : join ca P4 [x1] [x1] 9 = .error .denied ∧ join ca P4 [x2] [x2] 9 = .error .denied ∧
          join ca P4 [x3] [x3] 9 = .error .sigFail := ⟨rfl, rfl, rfl⟩

theorem reach_P1 : AReachable ca U 9 P1 :=
  .step .empty (.appendOk E (fun _ _ => a) (by decide) (by decide) (by decide) (by decide)
    (by decide) (by decide) (by decide) (by decide))

theorem reach_P2 : AReachable ca U 9 P2 :=
  .step reach_P1 (.appendDenied P1 (fun _ _ => x1) (by decide))

theorem reach_P3 : AReachable ca U 9 P3 :=
  .step reach_P2 (.appendOk P2 (fun _ _ => c) (by decide) (by decide) (by decide) (by decide)
    (by decide) (by decide) (by decide) (by decide))

theorem reach_P4 : AReachable ca U 9 P4 :=
  .step reach_P3 (.joinOk P3 P4 [a, b] [b] 9 ⟨by decide, by decide⟩ (by decide) rfl)

/-- … and the three rejected joins are steps too (state unchanged) -/
theorem reach_P4' : AReachable ca U 9 P4 :=
  .step (.step (.step reach_P4
    (.joinFail P4 [x1] [x1] 9 .denied rfl))
    (.joinFail P4 [x2] [x2] 9 .denied rfl))
    (.joinFail P4 [x3] [x3] 9 .sigFail rfl)

/-- the main theorems apply -/
example : ∀ x ∈ values P4, (acl.wildcard = true ∨ x.ident ∈ acl.ids) ∧ x.key = x.ident ∧
    x.identOk = true ∧ x.sigOk = true ∧ x.logId = P4.id :=
  C03_visible_authorised hU reach_P4'

example : x2 ∉ P4.entries ∧ x2 ∉ values P4 :=
  C03_unauthorised_absent hU reach_P4' x2 (Or.inr (Or.inl (by decide)))

example : Inv U P4 ∧ P4.entries.Nodup ∧ P4.id = 9 :=
  ⟨areachable_inv hU reach_P4', areachable_nodup hU reach_P4', areachable_id reach_P4'⟩

/-- and agree with direct evaluation; the forged clock puts `b` *before* the entry `a` it links
to — the order is wrong, the membership is right -/
example : P4.entries = [a, c, b] ∧ values P4 = [b, a, c] ∧ P2.entries = P1.entries := by decide

/-- the denied local write, through the theorem -/
example : (append ca P1 (fun _ _ => x1)).2 = .error .denied ∧ values P2 = values P1 := by
  have h := C03_local_denied ca P1 (fun _ _ => x1) (by decide)
  exact ⟨h.1, h.2.2.2.2.2⟩

/-! ### The batch of `replicationLoadComplete` -/

def batch : List (OMap × OMap) := [([x1], [x1]), ([b], [b]), ([x3], [x3]), ([x4], [x4]), ([c], [c])]

/-- `joinAll_accepts` applies to `b` and `c`, surrounded by rejected logs -/
example : has (joinAll acl P1 batch).entries b.hash = true :=
  joinAll_accepts acl batch P1 b (by decide) (by decide) (by decide)

example : has (joinAll acl P1 batch).entries c.hash = true :=
  joinAll_accepts acl batch P1 c (by decide) (by decide) (by decide)

/-- direct evaluation: the valid entries are merged, the four invalid ones are not; the pinned
loop stops at the first rejected log with nothing merged -/
example : (joinAll acl P1 batch).entries = [a, b, c] ∧
          (joinAllPinned acl P1 batch).1.entries = [a] := by decide

/-- `C04_joinAll` on an arbitrary batch -/
example : ∀ e ∈ P1.entries, e ∈ (joinAll acl P1 batch).entries := (C04_joinAll acl P1 batch).1

/-! ### `Sync`'s address check -/

/-- a wrongly addressed head of a writer aborts the `Sync`; a non-writer's head is skipped (and
dropped later by the join) -/
example : syncPrecheck0 acl [a, x5] = .hashMismatch ∧ syncPrecheck0 acl [a, x1, b] = .ok := by decide

example : ∀ h ∈ [a, x1, b], acl.canAppend h = true → h.hashOk = true :=
  C04_hash acl [a, x1, b] (by decide)

end Orbit.AuthExample
