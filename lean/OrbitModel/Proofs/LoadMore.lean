import OrbitModel.Proofs.LoadRejoin
import OrbitModel.Proofs.DiffAll
import OrbitModel.Proofs.LoadExamples
/-!
# `Load` on a store that already holds a part of the log   (C15, finding F36)

`Join` does not walk through held entries. Handing it only the entries the log does not hold yet
(`missingFetch`) makes every fetched entry part of the log, whatever the log held before.
-/
namespace Orbit

theorem joinSize_all_eq_join (ca : Entry → Bool) (L : Log) (A hs : OMap) (id : Nat) :
    joinSize ca L A hs id (-1) = join ca L A hs id := by
  unfold joinSize join
  split
  · rfl
  · cases joinChecked ca L A hs id <;> rfl

/-- **one head of an unlimited `Load` into ANY log satisfying the invariant** (empty, loaded with a
limit, written to, replicated into): afterwards the log holds exactly what it held plus everything
the fetcher brought for that head -/
theorem loadHead_all_aux {U : List Entry} (hU : HashDet U) (hM : ClockMono U)
    (acl : Acl) (fetch : Nat → OMap) {L : Log} (h : Nat) (hG : Good U L)
    (hF : Fetched U L (fetch h)) (hacc : ∀ e ∈ fetch h, acceptable acl.canAppend e = true) :
    ∃ L', loadHead acl fetch (-1) L h = .ok L' ∧
      L' = bumpClock (joinCore L (ofList (missingFetch L fetch h))
        (ofList (findHeads (ofList (missingFetch L fetch h)))) L.id) ∧
      ∀ e, e ∈ L'.entries ↔ e ∈ L.entries ∨ e ∈ fetch h := by
  have hFm := fetched_missing (L := L) hF
  have hA := fetched_honest hFm
  have hlid := fetched_lid hFm
  have hcov := fetched_covered hU hM hFm
  have hmem : ∀ e, e ∈ ofList (missingFetch L fetch h) ↔ e ∈ missingFetch L fetch h :=
    mem_ofList hU hFm.sub
  have hfresh : ∀ e ∈ ofList (missingFetch L fetch h), has L.entries e.hash = false := by
    intro e he
    have := (List.mem_filter.mp ((hmem e).mp he)).2
    simpa using this
  rw [loadHead_def, loadHead1_eq]
  generalize hm : ofList (missingFetch L fetch h) = m at *
  have hall : (difference m (ofList (findHeads m)) L).all (acceptable acl.canAppend) = true :=
    List.all_eq_true.mpr (fun x hx =>
      hacc x (List.mem_filter.mp ((hmem x).mp (difference_item _ _ _ x hx).1)).1)
  rcases joinSize_cases acl.canAppend L m (ofList (findHeads m)) (-1) with ⟨hna, _⟩ | ⟨_, hj⟩
  · exact absurd hall hna
  have hjoin : join acl.canAppend L m (ofList (findHeads m)) L.id =
      .ok (bumpClock (joinCore L m (ofList (findHeads m)) L.id)) := by
    rw [← joinSize_all_eq_join, hj, if_neg (by decide)]
  rw [hj, if_neg (by decide)]
  dsimp only
  rw [if_neg (by simp)]
  refine ⟨_, rfl, by rw [← hm], fun e => ?_⟩
  rw [join_fresh_entries hU hG.inv hA hlid hfresh hcov hjoin e]
  constructor
  · rintro (h1 | h1)
    · exact Or.inl h1
    · exact Or.inr (List.mem_filter.mp ((hmem e).mp h1)).1
  · rintro (h1 | h1)
    · exact Or.inl h1
    · by_cases hh : has L.entries e.hash = true
      · -- held under the same hash: the same entry
        obtain ⟨x, hx, hxe⟩ := List.any_eq_true.mp hh
        have : x = e := hU x (hG.inv.sub x hx) e (hF.sub e h1) (by simpa using hxe)
        exact Or.inl (this ▸ hx)
      · exact Or.inr ((hmem e).mpr (List.mem_filter.mpr ⟨h1, by simpa using hh⟩))

theorem loadHead_all_entries {U : List Entry} (hU : HashDet U) (hM : ClockMono U)
    (acl : Acl) (fetch : Nat → OMap) {L : Log} (h : Nat) (hG : Good U L)
    (hF : Fetched U L (fetch h)) (hacc : ∀ e ∈ fetch h, acceptable acl.canAppend e = true) :
    ∃ L', loadHead acl fetch (-1) L h = .ok L' ∧
      ∀ e, e ∈ L'.entries ↔ e ∈ L.entries ∨ e ∈ fetch h := by
  obtain ⟨L', h1, _, h3⟩ := loadHead_all_aux hU hM acl fetch h hG hF hacc
  exact ⟨L', h1, h3⟩

/-- … and all of it is LISTED: `Values()` of the result is what the log held plus what was fetched
(a log that satisfies the invariant lists every entry it holds) -/
theorem loadHead_all_values {U : List Entry} (hU : HashDet U) (hT : TieFree U) (hM : ClockMono U)
    (acl : Acl) (fetch : Nat → OMap) {L : Log} (h : Nat) (hG : Good U L)
    (hF : Fetched U L (fetch h)) (hacc : ∀ e ∈ fetch h, acceptable acl.canAppend e = true) :
    ∃ L', loadHead acl fetch (-1) L h = .ok L' ∧
      ∀ e, e ∈ values L' ↔ e ∈ L.entries ∨ e ∈ fetch h := by
  obtain ⟨L', hl, hL', hent⟩ := loadHead_all_aux hU hM acl fetch h hG hF hacc
  refine ⟨L', hl, fun e => ?_⟩
  obtain ⟨hI1, hnd1⟩ := fetched_joinCore hU hG (fetched_missing (L := L) hF)
  have hIb : Inv U L' := by rw [hL']; exact ⟨hI1.sub, hI1.heads, hI1.nidx, hI1.hnodup⟩
  have hndb : L'.entries.Nodup := by rw [hL']; exact hnd1
  obtain ⟨_, hm⟩ := values_sorted hU hT hM L' hIb hndb
  rw [hm e]
  exact hent e

namespace LoadExample

/-- the store after `Load(2)` of the 4-chain: it holds `c3, c4`, its head is `c4` -/
def top2 : Log := okOr (join acl.canAppend (Log.empty 9) [c4, c3] [c4] 9) (Log.empty 9)

def lst (r : Except Err Log) : Except Err (List Nat) := r.map (fun L => (values L).map (·.hash))

/-- **"load more" on the store that holds the top of the chain**: handed the whole fetched log, `Join`
stops at the held head and merges nothing (`loadHead1`: F36); handed only what is missing, `Load(-1)`
lists the chain, `Load(3)` its 3 newest entries, and `Load(2)` changes nothing -/
theorem load_more_witness :
    lst (Except.ok top2) = .ok [3, 4] ∧
    lst (loadHead1 acl (fun _ => [c4, c3, c2, c1]) (-1) top2 4) = .ok [3, 4] ∧
    lst (loadHead acl (fun _ => [c4, c3, c2, c1]) (-1) top2 4) = .ok [1, 2, 3, 4] ∧
    lst (loadHead1 acl (fun _ => [c4, c3, c2]) 3 top2 4) = .ok [3, 4] ∧
    lst (loadHead acl (fun _ => [c4, c3, c2]) 3 top2 4) = .ok [2, 3, 4] ∧
    lst (loadHead acl (fun _ => [c4, c3]) 2 top2 4) = .ok [3, 4] := by
  decide

end LoadExample

end Orbit
