import OrbitModel.Proofs.TravSort
/-!
# The traversal invariant and its preservation by one `step`
-/
set_option linter.unusedSectionVars false
namespace Trav
variable {α : Type} [DecidableEq α]

/-- hypotheses on the entry set `S`, its `roots` (heads) and `children` (next links present in S);
the order need only be total on `S` -/
structure ShapeOn (lt : α → α → Bool) (children : α → List α) (S roots : List α) : Prop where
  ord      : StrictTotalOn lt S
  snodup   : S.Nodup
  rnodup   : roots.Nodup
  rootsIn  : ∀ r ∈ roots, r ∈ S
  kidsIn   : ∀ p ∈ S, ∀ c ∈ children p, c ∈ S ∧ lt c p = true
  covered  : ∀ x ∈ S, x ∈ roots ∨ ∃ p ∈ S, x ∈ children p
  rootFree : ∀ p ∈ S, ∀ c ∈ children p, c ∉ roots

/-- the spike's `Shape`: the same with a globally total order -/
structure Shape (lt : α → α → Bool) (children : α → List α) (S roots : List α) : Prop where
  ord      : StrictTotal lt
  snodup   : S.Nodup
  rnodup   : roots.Nodup
  rootsIn  : ∀ r ∈ roots, r ∈ S
  kidsIn   : ∀ p ∈ S, ∀ c ∈ children p, c ∈ S ∧ lt c p = true
  covered  : ∀ x ∈ S, x ∈ roots ∨ ∃ p ∈ S, x ∈ children p
  rootFree : ∀ p ∈ S, ∀ c ∈ children p, c ∉ roots

theorem Shape.on {lt : α → α → Bool} {children : α → List α} {S roots : List α}
    (h : Shape lt children S roots) : ShapeOn lt children S roots :=
  ⟨h.ord.on S, h.snodup, h.rnodup, h.rootsIn, h.kidsIn, h.covered, h.rootFree⟩

structure Inv (lt : α → α → Bool) (children : α → List α) (S roots : List α) (s : St α) : Prop where
  sdesc   : Desc lt s.stack
  sIn     : ∀ x ∈ s.stack, x ∈ S ∧ x ∉ s.out
  odesc   : Desc lt s.out
  oIn     : ∀ x ∈ s.out, x ∈ S
  oBig    : ∀ o ∈ s.out, ∀ x ∈ S, x ∉ s.out → lt x o = true
  rootsAcc : ∀ r ∈ roots, r ∈ s.stack ∨ r ∈ s.out
  kidsAcc : ∀ p ∈ s.out, ∀ c ∈ children p, c ∈ s.stack ∨ c ∈ s.out
  seenAcc : ∀ x ∈ s.seen, x ∈ s.stack ∨ x ∈ s.out
  stackSeen : ∀ x ∈ s.stack, x ∈ roots ∨ x ∈ s.seen
  outSeen : ∀ x ∈ s.out, x ∈ s.seen

variable {lt : α → α → Bool} {children : α → List α} {S roots : List α}

/-- every remaining element is below-or-equal some stack element -/
theorem bounded (hS : ShapeOn lt children S roots) {s : St α} (hI : Inv lt children S roots s) :
    ∀ (n : Nat) (x : α), x ∈ S → x ∉ s.out → (S.filter (fun y => lt x y)).length ≤ n →
      ∃ t ∈ s.stack, x = t ∨ lt x t = true := by
  intro n
  induction n with
  | zero =>
    intro x hx hxo hlen
    rcases hS.covered x hx with hr | ⟨p, hp, hc⟩
    · rcases hI.rootsAcc x hr with h | h
      · exact ⟨x, h, Or.inl rfl⟩
      · exact absurd h hxo
    · have hlt := (hS.kidsIn p hp x hc).2
      have : p ∈ S.filter (fun y => lt x y) := List.mem_filter.mpr ⟨hp, hlt⟩
      have : 0 < (S.filter (fun y => lt x y)).length := List.length_pos_of_mem this
      omega
  | succ n ih =>
    intro x hx hxo hlen
    rcases hS.covered x hx with hr | ⟨p, hp, hc⟩
    · rcases hI.rootsAcc x hr with h | h
      · exact ⟨x, h, Or.inl rfl⟩
      · exact absurd h hxo
    · have hlt := (hS.kidsIn p hp x hc).2
      by_cases hpo : p ∈ s.out
      · rcases hI.kidsAcc p hpo x hc with h | h
        · exact ⟨x, h, Or.inl rfl⟩
        · exact absurd h hxo
      · -- p remains and has strictly fewer elements above it
        have hsub : ∀ y, y ∈ S.filter (fun y => lt p y) → y ∈ S.filter (fun y => lt x y) := by
          intro y hy
          have := List.mem_filter.mp hy
          exact List.mem_filter.mpr ⟨this.1, hS.ord.trans _ _ _ hlt this.2⟩
        have hpmem : p ∈ S.filter (fun y => lt x y) := List.mem_filter.mpr ⟨hp, hlt⟩
        have hpnot : p ∉ S.filter (fun y => lt p y) := by
          intro h; have := (List.mem_filter.mp h).2; simp [hS.ord.irrefl] at this
        have hlt_len : (S.filter (fun y => lt p y)).length < (S.filter (fun y => lt x y)).length := by
          have hnd1 : (S.filter (fun y => lt p y)).Nodup := hS.snodup.filter _
          have hnd2 : (p :: S.filter (fun y => lt p y)).Nodup := List.nodup_cons.mpr ⟨hpnot, hnd1⟩
          have hsub2 : (p :: S.filter (fun y => lt p y)) ⊆ S.filter (fun y => lt x y) := by
            intro y hy
            rcases List.mem_cons.mp hy with rfl | hy
            · exact hpmem
            · exact hsub y hy
          have := List.Nodup.length_le_of_subset hnd2 hsub2
          simp at this; omega
        obtain ⟨t, ht, hpt⟩ := ih p hp hpo (by omega)
        refine ⟨t, ht, Or.inr ?_⟩
        rcases hpt with rfl | hpt
        · exact hlt
        · exact hS.ord.trans _ _ _ hlt hpt

theorem top_is_max (hS : ShapeOn lt children S roots) {s : St α} (hI : Inv lt children S roots s)
    {e : α} {rest : List α} (hst : s.stack = e :: rest) :
    ∀ x ∈ S, x ∉ s.out → x ≠ e → lt x e = true := by
  intro x hx hxo hne
  obtain ⟨t, ht, hxt⟩ := bounded hS hI _ x hx hxo (Nat.le_refl _)
  have hd := hI.sdesc
  rw [hst] at ht hd
  have hall := (List.pairwise_cons.mp hd).1
  rcases List.mem_cons.mp ht with rfl | ht
  · rcases hxt with rfl | hxt
    · exact absurd rfl hne
    · exact hxt
  · have hte := hall t ht
    rcases hxt with rfl | hxt
    · exact hte
    · exact hS.ord.trans _ _ _ hxt hte

theorem step_inv (hS : ShapeOn lt children S roots) {s : St α} (hI : Inv lt children S roots s)
    {e : α} {rest : List α} (hst : s.stack = e :: rest) :
    Inv lt children S roots (step lt children s) ∧ (step lt children s).out = s.out ++ [e] := by
  have heS := (hI.sIn e (by rw [hst]; exact List.mem_cons_self)).1
  have heo := (hI.sIn e (by rw [hst]; exact List.mem_cons_self)).2
  have hmax := top_is_max hS hI hst
  have hd := hI.sdesc; rw [hst] at hd
  have hrestd : Desc lt rest := (List.pairwise_cons.mp hd).2
  have hrestlt := (List.pairwise_cons.mp hd).1
  have hrestnd : rest.Nodup := desc_nodup hS.ord.irrefl hrestd
  have henr : e ∉ rest := by
    intro h; have := hrestlt e h; simp [hS.ord.irrefl] at this
  obtain ⟨k2, k1, k3⟩ := pushKids_spec (children e) rest (e :: s.seen)
  -- children of e are not in rest unless already seen
  have hkids_seen : ∀ x ∈ rest, x ∈ children e → x ∈ e :: s.seen := by
    intro x hx hk
    rcases hI.stackSeen x (by rw [hst]; exact List.mem_cons_of_mem _ hx) with hr | hs
    · exact absurd hr (hS.rootFree e heS x hk)
    · exact List.mem_cons_of_mem _ hs
  have hstknd := k3 hrestnd hkids_seen
  have hstkS : ∀ y ∈ (pushKids (children e) rest (e :: s.seen)).1, y ∈ S := by
    intro y hy
    rcases (k1 y).mp hy with hy | ⟨hk, _⟩
    · exact (hI.sIn y (by rw [hst]; exact List.mem_cons_of_mem _ hy)).1
    · exact (hS.kidsIn e heS y hk).1
  have hstep : step lt children s =
      { stack := sortDesc lt (pushKids (children e) rest (e :: s.seen)).1,
        seen := (pushKids (children e) rest (e :: s.seen)).2,
        out := s.out ++ [e] } := by
    unfold step; rw [hst]; simp [heo]
  rw [hstep]
  refine ⟨?_, rfl⟩
  constructor
  · exact desc_sortDesc hS.ord _ hstkS hstknd
  · intro x hx
    simp only at hx ⊢
    rw [mem_sortDesc, k1] at hx
    rcases hx with hx | ⟨hk, hns⟩
    · have := hI.sIn x (by rw [hst]; exact List.mem_cons_of_mem _ hx)
      refine ⟨this.1, ?_⟩
      simp only [List.mem_append, List.mem_singleton, not_or]
      exact ⟨this.2, fun h => henr (h ▸ hx)⟩
    · refine ⟨(hS.kidsIn e heS x hk).1, ?_⟩
      simp only [List.mem_cons, not_or] at hns
      simp only [List.mem_append, List.mem_singleton, not_or]
      exact ⟨fun h => hns.2 (hI.outSeen x h), hns.1⟩
  · exact desc_append_singleton hI.odesc (fun o ho => hI.oBig o ho e heS heo)
  · intro x hx
    simp only [List.mem_append, List.mem_singleton] at hx
    rcases hx with hx | rfl
    · exact hI.oIn x hx
    · exact heS
  · intro o ho x hx hxo
    simp only [List.mem_append, List.mem_singleton, not_or] at ho hxo
    rcases ho with ho | rfl
    · exact hI.oBig o ho x hx hxo.1
    · exact hmax x hx hxo.1 hxo.2
  · intro r hr
    simp only [List.mem_append, List.mem_singleton]
    rw [mem_sortDesc, k1]
    rcases hI.rootsAcc r hr with h | h
    · rw [hst] at h
      rcases List.mem_cons.mp h with rfl | h
      · exact Or.inr (Or.inr rfl)
      · exact Or.inl (Or.inl h)
    · exact Or.inr (Or.inl h)
  · intro p hp c hc
    simp only [List.mem_append, List.mem_singleton] at hp ⊢
    rw [mem_sortDesc, k1]
    rcases hp with hp | rfl
    · rcases hI.kidsAcc p hp c hc with h | h
      · rw [hst] at h
        rcases List.mem_cons.mp h with rfl | h
        · exact Or.inr (Or.inr rfl)
        · exact Or.inl (Or.inl h)
      · exact Or.inr (Or.inl h)
    · -- children of the popped element: pushed, or already seen hence accounted
      by_cases hcs : c ∈ p :: s.seen
      · rcases List.mem_cons.mp hcs with rfl | hcs
        · exact Or.inr (Or.inr rfl)
        · rcases hI.seenAcc c hcs with h | h
          · rw [hst] at h
            rcases List.mem_cons.mp h with rfl | h
            · exact Or.inr (Or.inr rfl)
            · exact Or.inl (Or.inl h)
          · exact Or.inr (Or.inl h)
      · exact Or.inl (Or.inr ⟨hc, hcs⟩)
  · intro x hx
    simp only [List.mem_append, List.mem_singleton] at ⊢
    rw [mem_sortDesc, k1]
    rw [k2] at hx
    rcases hx with hx | hx
    · rcases List.mem_cons.mp hx with rfl | hx
      · exact Or.inr (Or.inr rfl)
      · rcases hI.seenAcc x hx with h | h
        · rw [hst] at h
          rcases List.mem_cons.mp h with rfl | h
          · exact Or.inr (Or.inr rfl)
          · exact Or.inl (Or.inl h)
        · exact Or.inr (Or.inl h)
    · by_cases hcs : x ∈ e :: s.seen
      · rcases List.mem_cons.mp hcs with rfl | hcs
        · exact Or.inr (Or.inr rfl)
        · rcases hI.seenAcc x hcs with h | h
          · rw [hst] at h
            rcases List.mem_cons.mp h with rfl | h
            · exact Or.inr (Or.inr rfl)
            · exact Or.inl (Or.inl h)
          · exact Or.inr (Or.inl h)
      · exact Or.inl (Or.inr ⟨hx, hcs⟩)
  · intro x hx
    simp only at hx ⊢
    rw [mem_sortDesc, k1] at hx
    rw [k2]
    rcases hx with hx | ⟨hk, _⟩
    · rcases hI.stackSeen x (by rw [hst]; exact List.mem_cons_of_mem _ hx) with h | h
      · exact Or.inl h
      · exact Or.inr (Or.inl (List.mem_cons_of_mem _ h))
    · exact Or.inr (Or.inr hk)
  · intro x hx
    simp only [List.mem_append, List.mem_singleton] at hx
    simp only
    rw [k2]
    rcases hx with hx | rfl
    · exact Or.inl (List.mem_cons_of_mem _ (hI.outSeen x hx))
    · exact Or.inl List.mem_cons_self

end Trav
