import OrbitModel.Model.GlobalChan
import OrbitModel.Generated.GenBus
/-!
# A caller with a live context gets a live global channel   (C16, F41); the default bus (F42)
-/
namespace Orbit.GlobalChan

/-- **whatever happened before — any callers, any of them gone — a caller whose context is live gets a
channel whose context is live** (so the channel is open and fed) -/
theorem live_caller_gets_a_live_channel (s : St) (ctx : Nat) (h : s.ended.contains ctx = false) :
    s.ended.contains (globalChannel true s ctx).2 = false := by
  unfold globalChannel
  cases hc : s.cur with
  | none => exact h
  | some c =>
    simp only [Bool.true_and]
    cases he : s.ended.contains c
    · simpa using he
    · simpa using h

/-- Refutation witness for the code as it was: caller 1 creates the channel and goes away; caller 2,
with a live context, is handed the channel of context 1 — closed -/
theorem second_caller_got_the_closed_channel :
    let s1 := (globalChannel false {} 1).1
    let s2 := «end» s1 1
    (globalChannel false s2 2).2 = 1 ∧ s2.ended.contains (globalChannel false s2 2).2 = true ∧
    (globalChannel true s2 2).2 = 2 := by decide

end Orbit.GlobalChan

namespace Orbit

/-- the Go text of this run sets the store's bus on its legacy emitter on every path of `InitBaseStore` -/
theorem gen_setBus_unconditional : Gen.setBusUnconditional = true := by decide

end Orbit
