import OrbitModel.Proofs.ReplHist
/-!
# Replicator: the user-level properties C11 and C10, and `replicator_complete`

`U` is any finite list of hashes containing every head ever requested and closed under the links
of this log's entries (`Closed`): without it the replicator could chase links forever. Fuel is
explicit: `fuelBound`/`fuelLoad` for a state with left-over workers, `3·|U|` from a quiescent one
(per hash: `acquire`, `fetched`, `finish`; plus one `deliver` for the single `LoadEnd` of the drain —
so `3·|U| < n` is exactly enough).
-/
namespace Orbit.Repl

variable {net : Nat → Info} {c : Nat} {U : List Nat}

/-- fuel for `Load` + drain from a state with left-over workers -/
def fuelLoad (U : List Nat) (s : St) : Nat :=
  3 * U.length + (3 * U.length + 3) * (s.workers.length + U.length) + s.pending.length

theorem quiescent_of {s : St} (hw : s.workers = []) (hp : s.pending = []) : quiescent s = true := by
  simp [quiescent, hw, hp]

/-- any `Load` (live context or not, whatever workers are left over) run to quiescence -/
theorem first_drain (hc : 0 < c) (hU : Closed net U) {s : St} (hi : Inv net c s) (hin : StIn U s)
    (ctx : Nat) {hs : List Nat} (hhs : ∀ h ∈ hs, h ∈ U) {n : Nat} (hn : fuelLoad U s < n) :
    let s1 := drain net n (step net s (.load ctx hs))
    Inv net c s1 ∧ StIn U s1 ∧ s1.workers = [] ∧ s1.pending = [] ∧ s1.cancelled = s.cancelled ∧
    ∀ h ∈ hs, tracked s1 h := by
  intro s1
  obtain ⟨l1, l2, _, l4, _, l6, _, l8⟩ := load_facts (net := net) hin ctx hhs
  have hfuel : pot U (step net s (.load ctx hs)) ≤ n := by
    have h1 := pot_le_fuelBound U (step net s (.load ctx hs))
    have h2 : fuelBound U (step net s (.load ctx hs)) ≤ fuelLoad U s := by
      unfold fuelBound fuelLoad
      rw [l4]
      have := Nat.mul_le_mul_left (3 * U.length + 3) l8
      omega
    omega
  obtain ⟨r1, r2, r3, r4, r5, r6, _⟩ :=
    drain_spec hc hU n (step net s (.load ctx hs)) (hi.load ctx hs) l1 hfuel
  exact ⟨r1, r2, r3, r4, r5.trans l2, fun h hm => r6 h (l6 h hm)⟩

/-- **what one request guarantees in general**: quiescence, and every accepted reachable entry is
visible or lies behind a hash remembered in `failed` (to be retried by the next `Load`). -/
theorem first_request_partial (hc : 0 < c) (hU : Closed net U) {s : St} (hi : Inv net c s)
    (hin : StIn U s) (ctx : Nat) {hs : List Nat} (hhs : ∀ h ∈ hs, h ∈ U) {n : Nat}
    (hn : fuelLoad U s < n) :
    let s1 := drain net n (step net s (.load ctx hs))
    quiescent s1 = true ∧
    ∀ x, ReachV net hs x → x ∈ s1.log ∨ ∃ y ∈ s1.failed, Reach net [y] x := by
  intro s1
  obtain ⟨r1, _, r3, r4, _, r6⟩ := first_drain hc hU hi hin ctx hhs hn
  refine ⟨quiescent_of r3 r4, ?_⟩
  intro x hx
  obtain ⟨hr, hv, hnf⟩ := hx.reach
  rcases quiet_reach r1 r3 r6 hr with h | h
  · exact Or.inl (settled_log r1 r3 r4 h hv hnf)
  · exact Or.inr h

/-- **Two requests always suffice** (any state satisfying `Inv`, in particular any reachable one):
run the scheduler to quiescence after any `Load` (its context may even be cancelled, and workers of
earlier cancelled requests may still be around); if nothing is left in `failed` everything reachable
is already in; in any case one more `Load` with a live context — for any heads, even none — brings
in everything reachable from the heads of both requests. -/
theorem two_requests (hc : 0 < c) (hU : Closed net U) {s : St} (hi : Inv net c s) (hin : StIn U s)
    (ctx : Nat) {hs : List Nat} (hhs : ∀ h ∈ hs, h ∈ U)
    {ctx' : Nat} (hctx' : s.cancelled.contains ctx' = false) {hs' : List Nat} (hhs' : ∀ h ∈ hs', h ∈ U)
    {n m : Nat} (hn : fuelLoad U s < n) (hm : 3 * U.length < m) :
    let s1 := drain net n (step net s (.load ctx hs))
    let s2 := drain net m (step net s1 (.load ctx' hs'))
    quiescent s1 = true ∧ (s1.failed = [] → ∀ x, ReachV net hs x → x ∈ s1.log) ∧
    quiescent s2 = true ∧ s2.failed = [] ∧ (∀ x, ReachV net (hs ++ hs') x → x ∈ s2.log) ∧
    (∀ x ∈ s2.log, (net x).valid = true ∧ (net x).foreign = false) := by
  intro s1 s2
  obtain ⟨r1, r2, r3, r4, r5, r6⟩ := first_drain hc hU hi hin ctx hhs hn
  have hcl1 : Clean s1 := by intro w hw; rw [show s1.workers = [] from r3] at hw; cases hw
  have hctx1 : s1.cancelled.contains ctx' = false := by
    rw [show s1.cancelled = _ from r5]; exact hctx'
  have hpot1 : potB U s1 < m := by
    unfold potB
    rw [show s1.workers = [] from r3, show s1.pending = [] from r4]
    have := fresh_le_length U s1
    simp only [wsum, List.map_nil, List.sum_nil, List.length_nil]
    omega
  obtain ⟨q1, _, q3, q4, q5, _, q7⟩ :=
    load_drain_clean hc hU r1 r2 hcl1 hctx1 hhs' hpot1
  refine ⟨quiescent_of r3 r4, ?_, quiescent_of q3 q4, q5, ?_, fun x hx => (q1.log_ok x hx).2⟩
  · intro hf x hx
    obtain ⟨hr, hv, hnf⟩ := hx.reach
    exact settled_log r1 r3 r4
      (settled_reach r1 r3 hf r6 hr) hv hnf
  · intro x hx
    obtain ⟨hr, hv, hnf⟩ := hx.reach
    refine (q7 (hs ++ hs') ?_ x hr).2 hv hnf
    intro h hm
    rcases List.mem_append.1 hm with hm | hm
    · exact Or.inl (r6 h hm)
    · exact Or.inr hm

/-- **One request suffices when no worker of a cancelled request is left** (every aborted request
has noticed its cancellation: its workers failed and their hashes are in `failed`). -/
theorem one_request (hc : 0 < c) (hU : Closed net U) {s : St} (hi : Inv net c s) (hin : StIn U s)
    (hcl : Clean s) {ctx : Nat} (hctx : s.cancelled.contains ctx = false) {hs : List Nat}
    (hhs : ∀ h ∈ hs, h ∈ U) {n : Nat} (hn : fuelBound U s < n) :
    let s' := drain net n (step net s (.load ctx hs))
    quiescent s' = true ∧ s'.failed = [] ∧ (∀ x, ReachV net hs x → x ∈ s'.log) ∧
    (∀ x ∈ s'.log, (net x).valid = true ∧ (net x).foreign = false) := by
  intro s'
  have := potB_le_fuelBound U s
  obtain ⟨q1, _, q3, q4, q5, _, q7⟩ := load_drain_clean hc hU hi hin hcl hctx hhs (n := n) (by omega)
  refine ⟨quiescent_of q3 q4, q5, ?_, fun x hx => (q1.log_ok x hx).2⟩
  intro x hx
  obtain ⟨hr, hv, hnf⟩ := hx.reach
  exact (q7 hs (fun h hm => Or.inr hm) x hr).2 hv hnf

/-- **C11**, for every history `acts` (requests, cancellations at any point, fetch failures, any
interleaving): after a later request with a live context and quiescence, every entry reachable from
the heads is visible — immediately if the aborted requests' workers are gone (`Clean`). -/
theorem C11_one_request (hc : 0 < c) (hU : Closed net U) (acts : List Act) (ha : ActsIn U acts)
    (ctx : Nat) (hs : List Nat) (hhs : ∀ h ∈ hs, h ∈ U) (n : Nat) :
    let s := run net { sem := c } acts
    Clean s → s.cancelled.contains ctx = false → fuelBound U s < n →
    let s' := drain net n (step net s (.load ctx hs))
    quiescent s' = true ∧ s'.failed = [] ∧ (∀ x, ReachV net hs x → x ∈ s'.log) ∧
    (∀ x ∈ s'.log, (net x).valid = true ∧ (net x).foreign = false) := by
  intro s hcl hctx hn
  exact one_request hc hU (inv_reachable net c acts) (stIn_reachable hU ha) hcl hctx hhs hn

/-- **C11**, general form: in every case after at most two requests (`Ex.one_load_not_enough`
shows that one is not always enough). The first request's context may itself be cancelled. -/
theorem C11_two_requests (hc : 0 < c) (hU : Closed net U) (acts : List Act) (ha : ActsIn U acts)
    (ctx : Nat) (hs : List Nat) (hhs : ∀ h ∈ hs, h ∈ U)
    (ctx' : Nat) (hs' : List Nat) (hhs' : ∀ h ∈ hs', h ∈ U) (n m : Nat) :
    let s := run net { sem := c } acts
    s.cancelled.contains ctx' = false → fuelLoad U s < n → 3 * U.length < m →
    let s1 := drain net n (step net s (.load ctx hs))
    let s2 := drain net m (step net s1 (.load ctx' hs'))
    quiescent s1 = true ∧ (s1.failed = [] → ∀ x, ReachV net hs x → x ∈ s1.log) ∧
    quiescent s2 = true ∧ s2.failed = [] ∧ (∀ x, ReachV net (hs ++ hs') x → x ∈ s2.log) ∧
    (∀ x ∈ s2.log, (net x).valid = true ∧ (net x).foreign = false) := by
  intro s hctx' hn hm
  exact two_requests hc hU (inv_reachable net c acts) (stIn_reachable hU ha) ctx hhs hctx' hhs' hn hm

/-- **C10**: for every history without cancellation — announcements mixing rejected (`valid = false`)
and foreign heads with valid ones at any position, processed in any order, fetches completing or
failing in any order — announcing heads `hs` (again) makes every accepted entry reachable from them
visible; rejected and foreign entries never enter the oplog. -/
theorem C10_rejected_never_block (hc : 0 < c) (hU : Closed net U) (acts : List Act)
    (ha : ActsIn U acts) (hnc : ∀ ctx, Act.cancel ctx ∉ acts)
    (ctx : Nat) (hs : List Nat) (hhs : ∀ h ∈ hs, h ∈ U) (n : Nat) :
    let s := run net { sem := c } acts
    fuelBound U s < n →
    let s' := drain net n (step net s (.load ctx hs))
    quiescent s' = true ∧ (∀ x, ReachV net hs x → x ∈ s'.log) ∧
    (∀ x ∈ s'.log, (net x).valid = true ∧ (net x).foreign = false) := by
  intro s hn s'
  obtain ⟨h0, hcl⟩ := clean_of_no_cancel (net := net) (c := c) hnc
  have hctx : s.cancelled.contains ctx = false := by rw [show s.cancelled = [] from h0]; rfl
  obtain ⟨r1, _, r3, r4⟩ := C11_one_request hc hU acts ha ctx hs hhs n hcl hctx hn
  exact ⟨r1, r3, r4⟩

/-- **`replicator_complete`** (used by C02): from the initial state, one `Load` run to quiescence
fetches and joins the whole ancestry of the heads when nothing is rejected. -/
theorem replicator_complete (hc : 0 < c) (hU : Closed net U)
    (hall : ∀ h, (net h).valid = true ∧ (net h).foreign = false)
    (ctx : Nat) (hs : List Nat) (hhs : ∀ h ∈ hs, h ∈ U) (n : Nat) (hn : 3 * U.length < n) :
    let s' := drain net n (step net { sem := c } (.load ctx hs))
    quiescent s' = true ∧ s'.failed = [] ∧ ∀ x, Reach net hs x → x ∈ s'.log := by
  intro s'
  have hin : StIn U ({ sem := c } : St) := ⟨fun w hw => (by cases hw), fun h hh => (by cases hh)⟩
  have hcl : Clean ({ sem := c } : St) := by intro w hw; cases hw
  have hpot : potB U ({ sem := c } : St) < n := by
    have := fresh_le_length U ({ sem := c } : St)
    show 3 * fresh U _ + wsum U.length [] [] + 0 < n
    simp only [wsum, List.map_nil, List.sum_nil]; omega
  obtain ⟨_, _, q3, q4, q5, _, q7⟩ :=
    load_drain_clean (ctx := ctx) hc hU (Inv.init net c) hin hcl rfl hhs hpot
  refine ⟨quiescent_of q3 q4, q5, ?_⟩
  intro x hx
  exact (q7 hs (fun h hm => Or.inr hm) x hx).2 (hall x).1 (hall x).2

end Orbit.Repl
