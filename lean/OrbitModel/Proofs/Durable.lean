import OrbitModel.Proofs.Covers
import OrbitModel.Proofs.Recover
/-!
# The durable log of a trace prefix, and what recovery returns from it   (C05)

`Durable U p D`: after the effects `p` the disk holds the block of every entry of the log `D`, the
cached heads are members of `D` and cover it, `D` is closed under `next`, and every acknowledged
write / replicated entry in `p` is a member of `D`. Then `recover` returns exactly the hashes of `D`
(`recover_durable`). The remaining lemmas say how `Durable` moves along one more effect.
-/
namespace Orbit

/-- every `next` link of a member names a member -/
def Closed (L : Log) : Prop := ∀ e ∈ L.entries, ∀ n ∈ e.next, has L.entries n = true

structure Durable (U : List Entry) (p : List Eff) (D : Log) : Prop where
  good   : Good U D
  closed : Closed D
  blocks : ∀ e ∈ D.entries, e.hash ∈ (diskOf p).blocks
  roots  : ∀ h ∈ (diskOf p).lheads ++ (diskOf p).rheads, has D.entries h = true
  covers : CoveredBy D ((diskOf p).lheads ++ (diskOf p).rheads)
  acks   : ∀ h, Eff.ack h ∈ p → has D.entries h = true
  repl   : ∀ hs, Eff.replicated hs ∈ p → ∀ h ∈ hs, has D.entries h = true

/-! ### the disk of a trace -/

theorem diskOf_snoc (p : List Eff) (e : Eff) : diskOf (p ++ [e]) = (diskOf p).apply e := by
  simp [diskOf, List.foldl_append]

theorem foldl_blocks (p : List Eff) : ∀ (d : Disk) (h : Nat),
    h ∈ (p.foldl Disk.apply d).blocks ↔ h ∈ d.blocks ∨ Eff.block h ∈ p := by
  induction p with
  | nil => intro d h; simp
  | cons e es ih =>
    intro d h
    rw [List.foldl_cons, ih]
    cases e <;> simp [Disk.apply, or_assoc, or_left_comm]

/-- a block is on disk exactly when its write is in the trace -/
theorem mem_blocks (p : List Eff) (h : Nat) : h ∈ (diskOf p).blocks ↔ Eff.block h ∈ p := by
  unfold diskOf; rw [foldl_blocks]; simp

/-! ### recovery returns the durable log -/

theorem desc_recover {U : List Entry} (hU : HashDet U) {d : Disk} {D : Log}
    (hsub : ∀ e ∈ D.entries, e ∈ U) (hblk : ∀ e ∈ D.entries, e.hash ∈ d.blocks) {a b : Nat}
    (hd : Desc D a b) : a ∈ recover U d → b ∈ recover U d := by
  induction hd with
  | refl _ => exact id
  | step hp hc hn _ ih =>
    intro ha
    exact ih ((recover_complete U d).2 _ ha _ (lookup_of_mem hU (hsub _ hp)) _ hn
      ⟨hblk _ hc, _, lookup_of_mem hU (hsub _ hc)⟩)

/-- **Recovery returns exactly the hashes of the durable log.** -/
theorem recover_durable {U : List Entry} (hU : HashDet U) {p : List Eff} {D : Log}
    (h : Durable U p D) : ∀ x, x ∈ recover U (diskOf p) ↔ has D.entries x = true := by
  have hsub := h.good.inv.sub
  intro x
  constructor
  · apply reach_sound U _ (fun x => has D.entries x = true) _ _ _ [] h.roots (fun _ hh => by cases hh)
    intro a ha e he n hn
    obtain ⟨y, hy, hya⟩ := (has_iff _ _).mp ha
    obtain ⟨heU, hea⟩ := lookup_some he
    have : y = e := hU y (hsub y hy) e heU (hya.trans hea.symm)
    exact h.closed e (this ▸ hy) n hn
  · intro hx
    obtain ⟨y, hy, hyx⟩ := (has_iff _ _).mp hx
    obtain ⟨r, hr, hd⟩ := h.covers y hy
    obtain ⟨z, hz, hzr⟩ := (has_iff _ _).mp (h.roots r hr)
    have hrR : r ∈ recover U (diskOf p) :=
      (recover_complete U (diskOf p)).1 r hr
        ⟨hzr ▸ h.blocks z hz, z, hzr ▸ lookup_of_mem hU (hsub z hz)⟩
    exact hyx ▸ desc_recover hU hsub h.blocks hd hrR

/-! ### one more effect -/

theorem has_mono {m m' : OMap} (hsub : ∀ e ∈ m, e ∈ m') {h : Nat} (hh : has m h = true) :
    has m' h = true := by
  obtain ⟨y, hy, hyh⟩ := (has_iff _ _).mp hh
  exact (has_iff _ _).mpr ⟨y, hsub y hy, hyh⟩

theorem mem_snoc_ack {p : List Eff} {e : Eff} {h : Nat} (hm : Eff.ack h ∈ p ++ [e]) :
    Eff.ack h ∈ p ∨ e = Eff.ack h := by
  rcases List.mem_append.mp hm with hm | hm
  · exact Or.inl hm
  · exact Or.inr (List.mem_singleton.mp hm).symm

theorem mem_snoc_repl {p : List Eff} {e : Eff} {hs : List Nat} (hm : Eff.replicated hs ∈ p ++ [e]) :
    Eff.replicated hs ∈ p ∨ e = Eff.replicated hs := by
  rcases List.mem_append.mp hm with hm | hm
  · exact Or.inl hm
  · exact Or.inr (List.mem_singleton.mp hm).symm

/-- a block write changes nothing for the durable log -/
theorem Durable.block {U : List Entry} {p : List Eff} {D : Log} (h : Durable U p D) (x : Nat) :
    Durable U (p ++ [.block x]) D := by
  have hd : diskOf (p ++ [.block x]) = { diskOf p with blocks := x :: (diskOf p).blocks } :=
    diskOf_snoc p _
  refine ⟨h.good, h.closed, ?_, ?_, ?_, ?_, ?_⟩
  · intro e he; rw [hd]; exact List.mem_cons_of_mem _ (h.blocks e he)
  · rw [hd]; exact h.roots
  · rw [hd]; exact h.covers
  · intro a ha
    rcases mem_snoc_ack ha with ha | ha
    · exact h.acks a ha
    · cases ha
  · intro hs hm
    rcases mem_snoc_repl hm with hm | hm
    · exact h.repl hs hm
    · cases hm

/-- acknowledging a member -/
theorem Durable.ack {U : List Entry} {p : List Eff} {D : Log} (h : Durable U p D) (x : Nat)
    (hx : has D.entries x = true) : Durable U (p ++ [.ack x]) D := by
  have hd : diskOf (p ++ [.ack x]) = diskOf p := diskOf_snoc p _
  refine ⟨h.good, h.closed, ?_, ?_, ?_, ?_, ?_⟩
  · rw [hd]; exact h.blocks
  · rw [hd]; exact h.roots
  · rw [hd]; exact h.covers
  · intro a ha
    rcases mem_snoc_ack ha with ha | ha
    · exact h.acks a ha
    · cases ha; exact hx
  · intro hs hm
    rcases mem_snoc_repl hm with hm | hm
    · exact h.repl hs hm
    · cases hm

/-- reporting members as replicated -/
theorem Durable.replicated {U : List Entry} {p : List Eff} {D : Log} (h : Durable U p D)
    (xs : List Nat) (hx : ∀ x ∈ xs, has D.entries x = true) :
    Durable U (p ++ [.replicated xs]) D := by
  have hd : diskOf (p ++ [.replicated xs]) = diskOf p := diskOf_snoc p _
  refine ⟨h.good, h.closed, ?_, ?_, ?_, ?_, ?_⟩
  · rw [hd]; exact h.blocks
  · rw [hd]; exact h.roots
  · rw [hd]; exact h.covers
  · intro a ha
    rcases mem_snoc_ack ha with ha | ha
    · exact h.acks a ha
    · cases ha
  · intro hs hm
    rcases mem_snoc_repl hm with hm | hm
    · exact h.repl hs hm
    · cases hm; exact hx

/-- what a cache write needs: a larger log, closed, with all blocks on disk, covered by the new
value of the key, which names members -/
structure CacheStep (U : List Entry) (p : List Eff) (D D' : Log) (hs : List Nat) : Prop where
  sub    : ∀ e ∈ D.entries, e ∈ D'.entries
  good   : Good U D'
  closed : Closed D'
  blocks : ∀ e ∈ D'.entries, e.hash ∈ (diskOf p).blocks
  heads  : ∀ h ∈ hs, has D'.entries h = true
  covers : CoveredBy D' hs

theorem Durable.cacheLocal {U : List Entry} {p : List Eff} {D D' : Log} {hs : List Nat}
    (h : Durable U p D) (g : CacheStep U p D D' hs) : Durable U (p ++ [.cacheLocal hs]) D' := by
  have hd : diskOf (p ++ [.cacheLocal hs]) = { diskOf p with lheads := hs } := diskOf_snoc p _
  refine ⟨g.good, g.closed, ?_, ?_, ?_, ?_, ?_⟩
  · rw [hd]; exact g.blocks
  · rw [hd]; intro x hx
    rcases List.mem_append.mp hx with hx | hx
    · exact g.heads x hx
    · exact has_mono g.sub (h.roots x (List.mem_append_right _ hx))
  · rw [hd]; exact g.covers.mono_heads (fun x hx => List.mem_append_left _ hx)
  · intro a ha
    rcases mem_snoc_ack ha with ha | ha
    · exact has_mono g.sub (h.acks a ha)
    · cases ha
  · intro xs hm
    rcases mem_snoc_repl hm with hm | hm
    · exact fun x hx => has_mono g.sub (h.repl xs hm x hx)
    · cases hm

theorem Durable.cacheRemote {U : List Entry} {p : List Eff} {D D' : Log} {hs : List Nat}
    (h : Durable U p D) (g : CacheStep U p D D' hs) : Durable U (p ++ [.cacheRemote hs]) D' := by
  have hd : diskOf (p ++ [.cacheRemote hs]) = { diskOf p with rheads := hs } := diskOf_snoc p _
  refine ⟨g.good, g.closed, ?_, ?_, ?_, ?_, ?_⟩
  · rw [hd]; exact g.blocks
  · rw [hd]; intro x hx
    rcases List.mem_append.mp hx with hx | hx
    · exact has_mono g.sub (h.roots x (List.mem_append_left _ hx))
    · exact g.heads x hx
  · rw [hd]; exact g.covers.mono_heads (fun x hx => List.mem_append_right _ hx)
  · intro a ha
    rcases mem_snoc_ack ha with ha | ha
    · exact has_mono g.sub (h.acks a ha)
    · cases ha
  · intro xs hm
    rcases mem_snoc_repl hm with hm | hm
    · exact fun x hx => has_mono g.sub (h.repl xs hm x hx)
    · cases hm

/-- nothing on disk, nothing promised -/
theorem durable_nil (U : List Entry) (id : Nat) : Durable U [] (Log.empty id) := by
  refine ⟨good_empty U id, ?_, ?_, ?_, coveredBy_empty id _, ?_, ?_⟩
  · intro e he; simp [Log.empty] at he
  · intro e he; simp [Log.empty] at he
  · intro h hh; simp [diskOf] at hh
  · intro h hh; cases hh
  · intro hs hh; cases hh

end Orbit
