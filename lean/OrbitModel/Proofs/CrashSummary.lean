import OrbitModel.Proofs.CrashCor
import OrbitModel.Proofs.CrashExample
/-!
# C05 in one statement: what was acknowledged survives any crash

`ValidHist acl U id ops L` (`CrashHist.lean`): a replica started on the empty log performed the
effectful operations `ops` (allowed writes, block fetches, `replicationLoadComplete`s that skip the
rejected logs, rewrite `_remoteHeads` and report the entries of the joined logs) and holds `L`.
Its effect trace is `trace ops`; a crash keeps an arbitrary prefix `p`; `recover U (diskOf p)` is
what `Load` can reach from the cached heads through blocks on disk.

Hypotheses carried by `ValidHist.merged` (besides honesty and "blocks fetched earlier"): the batch is
parent-closed among the entries that are merged (`BatchOk.parents`) and the reported entries are in
the log. Both follow from conditions on the batch alone (`ValidHist.merged_of_input`,
`ValidHist.merged_of_singles`); `CrashExample.rejected_parent_*` shows that a child accepted while
its parent is rejected breaks (iii)/(iv).
-/
namespace Orbit

/-- **C05.** For every valid history and every prefix `p` of its effect trace, the recovered set
`R = recover U (diskOf p)` satisfies:
 (i) every acknowledged write and every entry reported as replicated in `p` is in `R`;
 (ii) every member of `R` had its block written in `p`;
 (iii) `R` is closed under `next` (no recovered entry has a missing parent);
 (iv) `R` is the hash set of a good part `D` of the pre-crash log `L`, and `Values()` of `D` is
      `Values()` of `L` restricted to `R`. -/
theorem acknowledged_survive_any_crash {acl : Acl} {U : List Entry} (hU : HashDet U)
    (hT : TieFree U) (hM : ClockMono U) {id : Nat} {ops : List SOp} {L : Log}
    (hvalid : ValidHist acl U id ops L) (p : List Eff) (hp : p <+: trace ops) :
    (∀ h, Eff.ack h ∈ p → h ∈ recover U (diskOf p)) ∧
    (∀ hs, Eff.replicated hs ∈ p → ∀ h ∈ hs, h ∈ recover U (diskOf p)) ∧
    (∀ h ∈ recover U (diskOf p), Eff.block h ∈ p) ∧
    (∀ h ∈ recover U (diskOf p), ∀ e ∈ U, e.hash = h → ∀ n ∈ e.next, n ∈ recover U (diskOf p)) ∧
    (∃ D, Good U D ∧ (∀ e ∈ D.entries, e ∈ L.entries) ∧
      (∀ h, h ∈ recover U (diskOf p) ↔ has D.entries h = true) ∧
      values D = (values L).filter (fun e => (recover U (diskOf p)).contains e.hash)) := by
  obtain ⟨h1, h2, h3, h4, _⟩ := crash_recovers hU hM hvalid p hp
  obtain ⟨D, hG, _, hDL, hR, hV⟩ := crash_recovers_part hU hT hM hvalid p hp
  exact ⟨h1, h2, fun h hh => (h3 h hh).2, h4, D, hG, hDL, hR, hV⟩

/-! ### Non-vacuity: a history whose batch contains a rejected log -/

namespace CrashExample

theorem hT' : TieFree U' := by unfold TieFree; decide

/-- `ops'`: write `a`; fetch `c` and `bad`; `replicationLoadComplete` of `[[bad], [a, c]]`, where
`[bad]` is rejected and skipped; write `d`. The history is valid, its batch really has a rejected
log, and the theorem applies to each of its 11 cut points. -/
theorem summary_applies :
    ValidHist acl' U' 9 ops' K3 ∧
    (join acl'.canAppend K1 [bad] [bad] K1.id matches .error .denied) = true ∧
    trace ops' = [.block 1, .cacheLocal [1], .ack 1, .block 3, .block 5,
                  .cacheRemote [3], .replicated [1, 3], .block 4, .cacheLocal [4], .ack 4] ∧
    (∀ n, ∀ h, Eff.ack h ∈ (trace ops').take n → h ∈ recover U' (diskOf ((trace ops').take n))) ∧
    recover U' (diskOf ((trace ops').take 7)) = [3, 1] :=
  ⟨valid', by decide, by decide,
    fun n => (acknowledged_survive_any_crash hU' hT' hM' valid' _ (List.take_prefix n _)).1,
    by decide⟩

end CrashExample

end Orbit
