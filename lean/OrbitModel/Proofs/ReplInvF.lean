import OrbitModel.Proofs.ReplInvS
/-!
# Replicator: the structural invariant is preserved by the elementary moves (2)

`toFin` (a fetch returns: the worker buffers its log — unless it is foreign — and goes to
`finishing`; the task stays `fetching`), `complete` (`processEntryDone`: the finishing worker goes,
its task becomes `fetched`).
-/
namespace Orbit.Repl

/-- with one worker per hash, the worker bound to `w.item` is `w` -/
theorem worker_unique {l1 l2 : List Worker} {w w' : Worker}
    (hnd : ((l1 ++ w :: l2).map (·.item)).Nodup) (hm : w' ∈ l1 ++ w :: l2) (e : w'.item = w.item) :
    w' = w := by
  obtain ⟨_, hne⟩ := nodup_split hnd
  rcases List.mem_append.1 hm with hm | hm
  · exact absurd e (hne w' (List.mem_append.2 (Or.inl hm)))
  · rcases List.mem_cons.1 hm with rfl | hm
    · rfl
    · exact absurd e (hne w' (List.mem_append.2 (Or.inr hm)))

theorem mem_swap {l1 l2 : List Worker} {w w2 w' : Worker} (h : w' ∈ l1 ++ w :: l2) (hne : w' ≠ w) :
    w' ∈ l1 ++ w2 :: l2 := by
  rcases List.mem_append.1 h with h | h
  · exact List.mem_append.2 (Or.inl h)
  · rcases List.mem_cons.1 h with rfl | h
    · exact absurd rfl hne
    · exact List.mem_append.2 (Or.inr (List.mem_cons_of_mem _ h))

theorem InvS.toFin {net : Nat → Info} {s s' : St} (h : InvS net s) {l1 l2 : List Worker}
    {ctx hh : Nat} (hw : s.workers = l1 ++ ⟨ctx, hh, .fetching⟩ :: l2)
    (h1 : s'.workers = l1 ++ ⟨ctx, hh, .finishing⟩ :: l2)
    (h2 : s'.tasks = s.tasks) (h3 : s'.inProgress = s.inProgress) (h4 : s'.queue = s.queue)
    (h5 : s'.log = s.log) (h7 : s'.pending = s.pending)
    (h6 : ((net hh).foreign = true ∧ s'.buffer = s.buffer) ∨
          ((net hh).foreign = false ∧ s'.buffer = s.buffer ++ [hh])) : InvS net s' := by
  have hnd := h.w_nodup; rw [hw] at hnd
  have ht : ∀ k, task s' k = task s k := task_congr h2
  have hmine : (⟨ctx, hh, .finishing⟩ : Worker) ∈ s'.workers :=
    h1 ▸ List.mem_append.2 (Or.inr List.mem_cons_self)
  have hwt : task s hh = some .fetching :=
    h.w_task ⟨ctx, hh, .fetching⟩ (hw ▸ List.mem_append.2 (Or.inr List.mem_cons_self))
  -- the other workers
  have hfwd : ∀ w' ∈ s.workers, w' ≠ ⟨ctx, hh, .fetching⟩ → w' ∈ s'.workers := by
    intro w' hm hne; rw [h1]; rw [hw] at hm; exact mem_swap hm hne
  have hbwd : ∀ w' ∈ s'.workers, w' ≠ ⟨ctx, hh, .finishing⟩ → w' ∈ s.workers := by
    intro w' hm hne; rw [hw]; rw [h1] at hm; exact mem_swap hm hne
  have hgot : ∀ k, got s k → got s' k := by
    intro k hk
    refine got_mono (fun k hk => by rw [ht]; exact hk) ?_ hk
    intro w' hm hp
    exact hfwd w' hm (fun e => by rw [e] at hp; cases hp)
  have hsub : ∀ k ∈ s.buffer, k ∈ s'.buffer := by
    intro k hk
    rcases h6 with ⟨_, e⟩ | ⟨_, e⟩ <;> rw [e]
    · exact hk
    · exact List.mem_append.2 (Or.inl hk)
  have hnb : hh ∉ s.buffer := by
    intro hm
    rcases (h.buf_got hh hm).1 with hg | ⟨w', hm', e, hp⟩
    · rw [hwt] at hg; cases hg
    · rw [hw] at hm'
      have := worker_unique (w := ⟨ctx, hh, .fetching⟩) hnd hm' e
      rw [this] at hp; cases hp
  refine ⟨?_, by rw [h2]; exact h.keys_nodup, ?_, ?_, ?_, ?_, ?_, ?_, ?_, ?_,
    by rw [h5]; exact h.log_nodup, ?_, ?_⟩
  · rw [h3, h1, h.inprog_eq, hw]
    simp [List.countP_append, List.countP_cons]
  · rw [h1]; simpa using hnd
  · intro w' hm
    rw [ht]
    by_cases e : w' = ⟨ctx, hh, .finishing⟩
    · rw [e]; exact hwt
    · exact h.w_task w' (hbwd w' hm e)
  · intro k t hk hnf
    rw [ht] at hk
    obtain ⟨w', hm, e1, e2⟩ := h.task_w k t hk hnf
    by_cases e : w' = ⟨ctx, hh, .fetching⟩
    · refine ⟨⟨ctx, hh, .finishing⟩, hmine, ?_, ?_⟩
      · rw [← e1, e]
      · rw [← e2, e]; rfl
    · exact ⟨w', hfwd w' hm e, e1, e2⟩
  · rw [h4, h1, h.queue_eq, hw]
    simp [List.filter_append]
  · intro b hb k hk
    rw [ht]; exact h.pend_fetched b (h7 ▸ hb) k hk
  · intro k hk
    rcases h6 with ⟨_, e⟩ | ⟨hf, e⟩ <;> rw [e] at hk
    · exact ⟨hgot k (h.buf_got k hk).1, (h.buf_got k hk).2⟩
    · rcases List.mem_append.1 hk with hk | hk
      · exact ⟨hgot k (h.buf_got k hk).1, (h.buf_got k hk).2⟩
      · rw [List.mem_singleton.1 hk]
        exact ⟨Or.inr ⟨_, hmine, rfl, rfl⟩, hf⟩
  · intro w' hm hp hf
    by_cases e : w' = ⟨ctx, hh, .finishing⟩
    · rw [e] at hf ⊢
      rcases h6 with ⟨hf', _⟩ | ⟨_, e'⟩
      · rw [show (net hh).foreign = false from hf] at hf'; cases hf'
      · rw [e']; exact List.mem_append.2 (Or.inr (List.mem_singleton.2 rfl))
    · exact hsub _ (h.fin_buf w' (hbwd w' hm e) hp hf)
  · rcases h6 with ⟨_, e⟩ | ⟨_, e⟩ <;> rw [e]
    · exact h.buf_nodup
    · rw [List.nodup_append]
      refine ⟨h.buf_nodup, by simp, ?_⟩
      intro a ha b hb e
      rw [List.mem_singleton] at hb
      exact hnb (hb ▸ e ▸ ha)
  · intro k hk
    rw [ht]; exact h.log_ok k (h5 ▸ hk)
  · intro k hk hv hf
    rw [ht] at hk
    rw [h5]
    rcases h.fetched_in k hk hv hf with h' | h' | h'
    · exact Or.inl h'
    · exact Or.inr (Or.inl (hsub k h'))
    · exact Or.inr (Or.inr (h7 ▸ h'))

theorem InvS.complete {net : Nat → Info} {s s' : St} (h : InvS net s) {l1 l2 : List Worker}
    {ctx hh : Nat} (hw : s.workers = l1 ++ ⟨ctx, hh, .finishing⟩ :: l2)
    (h1 : s'.workers = l1 ++ l2)
    (h2 : s'.tasks = (hh, .fetched) :: s.tasks.filter (·.1 != hh))
    (h3 : s'.inProgress = s.inProgress - 1) (h4 : s'.queue = s.queue)
    (h5 : s'.log = s.log) (h6 : s'.buffer = s.buffer) (h7 : s'.pending = s.pending) :
    InvS net s' := by
  have hnd := h.w_nodup; rw [hw] at hnd
  obtain ⟨hnd', hne⟩ := nodup_split hnd
  have ht := lookup_set_task h2
  have hmine : (⟨ctx, hh, .finishing⟩ : Worker) ∈ s.workers :=
    hw ▸ List.mem_append.2 (Or.inr List.mem_cons_self)
  have hold : ∀ k, task s k = some .fetched → task s' k = some .fetched := by
    intro k hk
    rw [ht]
    by_cases e : hh = k
    · simp [e]
    · simp only [e, if_false]; exact hk
  have hgot : ∀ k, got s k → got s' k := by
    rintro k (hk | ⟨w', hm, e, hp⟩)
    · exact Or.inl (hold k hk)
    · by_cases e' : w'.item = hh
      · left; rw [ht, ← e, e']; simp
      · right
        rw [hw] at hm
        exact ⟨w', h1 ▸ mem_split_ne (w := ⟨ctx, hh, .finishing⟩) hm e', e, hp⟩
  have hbp : ∀ k, inBP s' k ↔ inBP s k := inBP_congr h6 h7
  refine ⟨?_, by rw [h2]; exact keys_nodup_set _ _ h.keys_nodup, by rw [h1]; exact hnd', ?_, ?_, ?_, ?_,
    ?_, ?_, by rw [h6]; exact h.buf_nodup, by rw [h5]; exact h.log_nodup, ?_, ?_⟩
  · rw [h3, h1, h.inprog_eq, hw]
    simp [List.countP_append, List.countP_cons]
  · intro w' hw'
    rw [h1] at hw'
    rw [ht]
    have : ¬ hh = w'.item := fun e => hne w' hw' e.symm
    simp only [this, if_false]
    exact h.w_task w' (hw ▸ mem_split_of hw')
  · intro k t hk hnf
    rw [ht] at hk
    by_cases e : hh = k
    · simp only [e, if_true, Option.some.injEq] at hk; exact absurd hk.symm hnf
    · simp only [e, if_false] at hk
      obtain ⟨w', hw', e1, e2⟩ := h.task_w k t hk hnf
      rw [hw] at hw'
      have hne' : w'.item ≠ hh := fun x => e (x.symm.trans e1)
      exact ⟨w', h1 ▸ mem_split_ne (w := ⟨ctx, hh, .finishing⟩) hw' hne', e1, e2⟩
  · rw [h4, h1, h.queue_eq, hw]
    simp [List.filter_append]
  · intro b hb k hk
    have := h.pend_fetched b (h7 ▸ hb) k hk
    exact ⟨hold k this.1, this.2⟩
  · intro k hk
    have := h.buf_got k (h6 ▸ hk)
    exact ⟨hgot k this.1, this.2⟩
  · intro w' hw' hp hf
    rw [h6]
    exact h.fin_buf w' (hw ▸ mem_split_of (h1 ▸ hw')) hp hf
  · intro k hk
    have := h.log_ok k (h5 ▸ hk)
    exact ⟨hold k this.1, this.2⟩
  · intro k hk hv hf
    rw [h5, hbp]
    rw [ht] at hk
    by_cases e : hh = k
    · subst e
      exact Or.inr (Or.inl (h.fin_buf _ hmine rfl hf))
    · simp only [e, if_false] at hk
      exact h.fetched_in k hk hv hf

end Orbit.Repl
