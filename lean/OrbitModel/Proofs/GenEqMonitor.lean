import OrbitModel.Generated.GenMonitor
import OrbitModel.Model.Order
/-!
# Regenerated Go fragment = hand-written model (tie 2): the sender test of the pairwise channel
-/
namespace Orbit

theorem gen_monitorTopic_order : Gen.monitorTopicOrder = Order.monitorTopic := by decide

end Orbit
