import OrbitModel.Model.Connect
/-!
# One subscription per peer, whatever the number and order of `Connect` calls   (C20)
-/
namespace Orbit.Connect

/-- the peer is in `subs` exactly when there is a subscription, and there is never more than one -/
def Inv (s : St) : Prop := (s.known = true ∧ s.subscriptions = 1) ∨ (s.known = false ∧ s.subscriptions = 0)

theorem connectLocked_inv (s : St) (h : Inv s) : Inv (connectLocked s) ∧ (connectLocked s).known = true := by
  unfold connectLocked
  rcases h with ⟨hk, hs⟩ | ⟨hk, hs⟩
  · simp [hk, Inv, hs]
  · simp [hk, Inv, hs]

theorem runLocked_inv (n : Nat) : Inv (runLocked n {}) := by
  induction n with
  | zero => exact Or.inr ⟨rfl, rfl⟩
  | succ n ih => exact (connectLocked_inv _ ih).1

/-- **any number of `Connect` calls for one peer, in whatever order the mutex serialises them, leaves
exactly one subscription** (so every payload of that peer is delivered once) -/
theorem runLocked_subscribed (n : Nat) (hn : 0 < n) : (runLocked n {}).subscriptions = 1 := by
  cases n with
  | zero => omega
  | succ n =>
    have h := connectLocked_inv _ (runLocked_inv n)
    rcases h.1 with ⟨_, hs⟩ | ⟨hk, _⟩
    · exact hs
    · rw [h.2] at hk; cases hk

/-- the lock released around `Subscribe`: two callers, each looks the peer up before the other has
inserted it: two subscriptions, every payload delivered twice (seeded change C20c; the order of lock,
subscribe and unlock in the Go text is regenerated and compared on every run) -/
theorem narrowed_lock_subscribes_twice :
    (runNarrow { callers := [(.check, false), (.check, false)] } [0, 1, 0, 1, 0, 1]).st.subscriptions = 2 := by
  decide

/-! ### attribution -/

/-- **what the channel hands on is exactly what `p` sent, in order, attributed to `p`** — whoever else
publishes on the topic, whatever they publish -/
theorem monitor_eq (p : Nat) (msgs : List (Nat × List Nat)) :
    monitor p msgs = msgs.filter (fun m => m.1 == p) := by
  unfold monitor
  induction msgs with
  | nil => rfl
  | cons m ms ih =>
    simp only [List.filter_cons]
    split
    · rename_i h
      simp only [List.map_cons, ih]
      have : m.1 = p := by simpa using h
      rw [← this]
    · exact ih

theorem monitor_sound (p : Nat) (msgs : List (Nat × List Nat)) :
    ∀ e ∈ monitor p msgs, e.1 = p ∧ e ∈ msgs := by
  intro e he
  rw [monitor_eq] at he
  obtain ⟨h1, h2⟩ := List.mem_filter.mp he
  exact ⟨by simpa using h2, h1⟩

/-- nothing of `p` is lost or duplicated: each payload of `p` is handed on as often as it was sent -/
theorem monitor_complete (p : Nat) (msgs : List (Nat × List Nat)) (d : List Nat) :
    (monitor p msgs).count (p, d) = msgs.count (p, d) := by
  rw [monitor_eq]
  induction msgs with
  | nil => rfl
  | cons m ms ih =>
    simp only [List.filter_cons]
    by_cases h : (m.1 == p) = true
    · simp only [h, if_true, List.count_cons, ih]
    · simp only [h, Bool.false_eq_true, if_false, List.count_cons, ih]
      have : ¬ (m == (p, d)) = true := by
        intro hc
        have := (beq_iff_eq.mp hc)
        rw [this] at h
        simp at h
      simp [this]

/-- Refutation witness for the filter as it was: peer 9 — not an end of the channel between 1 and 2 —
publishes on the pairwise topic; end 1 handed its payload on as coming from 2 -/
theorem third_party_payload_was_attributed_to_the_target :
    monitor0 1 2 [(2, [7]), (9, [6, 6, 6]), (1, [5])] = [(2, [7]), (2, [6, 6, 6])] ∧
    monitor 2 [(2, [7]), (9, [6, 6, 6]), (1, [5])] = [(2, [7])] := by decide

end Orbit.Connect

