import OrbitModel.Model.Connect
/-!
# One subscription per peer, whatever the number and order of `Connect` calls   (C20)
-/
namespace Orbit.Connect

/-- the peer is in `subs` exactly when there is a subscription, and there is never more than one -/
def Inv (s : St) : Prop := (s.known = true ∧ s.subscriptions = 1) ∨ (s.known = false ∧ s.subscriptions = 0)

theorem connectLocked_inv (s : St) (h : Inv s) : Inv (connectLocked s) ∧ (connectLocked s).known = true := by
  unfold connectLocked
  rcases h with ⟨hk, hs⟩ | ⟨hk, hs⟩
  · simp [hk, Inv, hs]
  · simp [hk, Inv, hs]

theorem runLocked_inv (n : Nat) : Inv (runLocked n {}) := by
  induction n with
  | zero => exact Or.inr ⟨rfl, rfl⟩
  | succ n ih => exact (connectLocked_inv _ ih).1

/-- **any number of `Connect` calls for one peer, in whatever order the mutex serialises them, leaves
exactly one subscription** (so every payload of that peer is delivered once) -/
theorem runLocked_subscribed (n : Nat) (hn : 0 < n) : (runLocked n {}).subscriptions = 1 := by
  cases n with
  | zero => omega
  | succ n =>
    have h := connectLocked_inv _ (runLocked_inv n)
    rcases h.1 with ⟨_, hs⟩ | ⟨hk, _⟩
    · exact hs
    · rw [h.2] at hk; cases hk

/-- the lock released around `Subscribe`: two callers, each looks the peer up before the other has
inserted it: two subscriptions, every payload delivered twice (seeded change C20c; the order of lock,
subscribe and unlock in the Go text is regenerated and compared on every run) -/
theorem narrowed_lock_subscribes_twice :
    (runNarrow { callers := [(.check, false), (.check, false)] } [0, 1, 0, 1, 0, 1]).st.subscriptions = 2 := by
  decide

end Orbit.Connect
