import OrbitModel.Model.OpenCreate
import OrbitModel.Proofs.Address
/-!
# `Create` / `Open` of one OrbitDB instance: what is refused, what is handed back   (C14)

Hypothesis on the manifest hash wherever an address is printed and parsed again: it is recognised
as a CID and is a proper path segment (`isCid h = true`, `Seg h`: not empty, `.`, `..`, no `/`),
as in `determine_parse_print`. It is asked only of the one hash involved.
-/
namespace Orbit.OC
open Orbit.Path

variable {isCid : String → Bool} {H : String → String → List String → String}

/-! ### Unfolding lemmas -/

theorem haveLocal_iff (s : St) (a : Addr) : haveLocal s a = true ↔ a ∈ s.local := by
  simp [haveLocal]

theorem haveLocal_addLocal (s : St) (a : Addr) : haveLocal (addLocal s a) a = true := by
  unfold haveLocal addLocal
  by_cases h : s.local.contains a = true
  · simp only [h, if_true]
  · simp only [h]; simp

theorem fetch_putNet (s : St) (h : String) (m : Manifest) : fetch (putNet s h m).net h = some m := by
  simp [fetch, putNet]

/-- `DetermineAddress` succeeded: the three checks passed, and the manifest was written -/
theorem determineAddr_ok {s s1 : St} {name ty : String} {acl : List String} {a : Addr}
    (h : determineAddr isCid H s name ty acl = (.ok a, s1)) :
    s.types.contains ty = true ∧ isAddress isCid name = false ∧
    determine isCid (H name ty (effAcl s.self acl)) name = some a ∧
    s1 = putNet s (H name ty (effAcl s.self acl)) ⟨name, ty, effAcl s.self acl⟩ := by
  unfold determineAddr at h
  cases ht : s.types.contains ty
  · simp only [ht, Bool.not_false, if_true] at h
    injection h with h1 _
    cases h1
  · cases hn : isAddress isCid name
    · simp only [ht, hn, Bool.not_true, Bool.false_eq_true, if_false] at h
      split at h
      · rename_i a' hd
        injection h with h1 h2
        injection h1 with h1
        subst h1
        exact ⟨rfl, rfl, hd, h2.symm⟩
      · injection h with h1 _
        cases h1
    · simp only [ht, hn, Bool.not_true, Bool.false_eq_true, if_false, if_true] at h
      injection h with h1 _
      cases h1

theorem determineAddr_of {s : St} {name ty : String} {acl : List String} {a : Addr}
    (ht : s.types.contains ty = true) (hn : isAddress isCid name = false)
    (hd : determine isCid (H name ty (effAcl s.self acl)) name = some a) :
    determineAddr isCid H s name ty acl =
      (.ok a, putNet s (H name ty (effAcl s.self acl)) ⟨name, ty, effAcl s.self acl⟩) := by
  unfold determineAddr
  simp only [ht, hn, Bool.not_true, Bool.false_eq_true, if_false, hd]

/-- `DetermineAddress` never returns an address without these -/
theorem determineAddr_ok_fst {s : St} {name ty : String} {acl : List String} {a : Addr}
    (h : (determineAddr isCid H s name ty acl).1 = .ok a) :
    s.types.contains ty = true ∧ isAddress isCid name = false ∧
    determine isCid (H name ty (effAcl s.self acl)) name = some a :=
  let ⟨h1, h2, h3, _⟩ := determineAddr_ok (isCid := isCid) (H := H)
    (s1 := (determineAddr isCid H s name ty acl).2) (Prod.ext h rfl)
  ⟨h1, h2, h3⟩

/-- what `Open` does with a parsed address never changes the instance (U1) -/
theorem openValid_state (s : St) (a : Addr) (o : Opts) : (openValid s a o).2 = s := by
  unfold openValid
  split
  · rfl
  · split
    · rfl
    · split <;> rfl

/-- a successful `Open` of a parsed address: the manifest under its root decides -/
theorem openValid_ok {s : St} {a : Addr} {o : Opts} {out : Out}
    (h : (openValid s a o).1 = .ok out) :
    ∃ m, fetch s.net a.root = some m ∧ out = (a, m.type, m.acl) ∧ s.types.contains m.type = true ∧
      (o.localOnly = true → a ∈ s.local) := by
  unfold openValid at h
  split at h
  · cases h
  · rename_i hlo
    split at h
    · cases h
    · rename_i m hm
      split at h
      · cases h
      · rename_i hty
        injection h with h
        refine ⟨m, hm, h.symm, by simpa using hty, fun hl => ?_⟩
        rw [← haveLocal_iff]
        simpa [hl] using hlo

theorem openValid_of {s : St} {a : Addr} {o : Opts} {m : Manifest}
    (hl : o.localOnly = true → a ∈ s.local) (hm : fetch s.net a.root = some m)
    (ht : s.types.contains m.type = true) :
    openValid s a o = (.ok (a, m.type, m.acl), s) := by
  unfold openValid
  have h1 : (o.localOnly && !haveLocal s a) = false := by
    cases hlo : o.localOnly
    · rfl
    · simp [(haveLocal_iff s a).mpr (hl hlo)]
  simp only [h1, Bool.false_eq_true, if_false, hm, ht, Bool.not_true]

/-! ### `Create` as a function of the address `DetermineAddress` computes -/

/-- the access-controller write list and manifest `Create` records -/
abbrev recAcl (s : St) (o : Opts) : List String := effAcl s.self o.acl
abbrev recHash (H : String → String → List String → String) (s : St) (name ty : String) (o : Opts) :
    String := H name ty (recAcl s o)

/-- **`Create`, once `DetermineAddress` has answered `a`**: refused when local data exists and
overwrite is not requested; otherwise the key is written and the store is the one recorded. -/
theorem create_of {s : St} {name ty : String} {o : Opts} {a : Addr}
    (ht : s.types.contains ty = true) (hn : isAddress isCid name = false)
    (hd : determine isCid (recHash H s name ty o) name = some a)
    (hc : isCid (recHash H s name ty o) = true) (hs : Seg (recHash H s name ty o)) :
    create isCid H s name ty o =
      if haveLocal s a && !o.overwrite then
        (.error .exists, putNet s (recHash H s name ty o) ⟨name, ty, recAcl s o⟩)
      else (.ok (a, ty, recAcl s o),
        addLocal (putNet s (recHash H s name ty o) ⟨name, ty, recAcl s o⟩) a) := by
  have hpp : parse isCid (print a) = some a := parse_print_of_parse0 (determine_parse_print hc hs hd)
  have hroot : a.root = recHash H s name ty o := determine_root hd
  unfold create
  rw [determineAddr_of ht hn hd]
  simp only [hpp]
  have hl : haveLocal (putNet s (recHash H s name ty o) ⟨name, ty, recAcl s o⟩) a = haveLocal s a := rfl
  rw [hl]
  split
  · rfl
  · apply openValid_of (m := ⟨name, ty, recAcl s o⟩)
    · intro _
      exact (haveLocal_iff _ _).mp (haveLocal_addLocal _ a)
    · rw [hroot]; exact fetch_putNet s _ _
    · exact ht

/-- `Create` answers a store only if `DetermineAddress` answered an address -/
theorem create_ok_determine {s : St} {name ty : String} {o : Opts} {out : Out}
    (h : (create isCid H s name ty o).1 = .ok out) :
    ∃ a, (determineAddr isCid H s name ty o.acl).1 = .ok a := by
  unfold create at h
  split at h
  · cases h
  · rename_i a s1 heq
    exact ⟨a, by rw [heq]⟩

/-! ### The properties -/

/-- **`Create` over an existing local database without overwrite is refused**, the cache is left
as it was, and the only thing that happened is `DetermineAddress`'s write of the manifest block
(U2) -- which changes nothing that can be read when the block was already there
(`putNet_same_fetch`). `a` is the address `DetermineAddress` computes for the arguments. -/
theorem create_refused_when_exists (s : St) (name ty : String) (o : Opts) (a : Addr)
    (hd : (determineAddr isCid H s name ty o.acl).1 = .ok a)
    (hl : a ∈ s.local) (ho : o.overwrite = false) :
    create isCid H s name ty o =
      (.error .exists, putNet s (recHash H s name ty o) ⟨name, ty, recAcl s o⟩) ∧
    (create isCid H s name ty o).2.local = s.local ∧
    (create isCid H s name ty o).2.types = s.types ∧
    (create isCid H s name ty o).2.self = s.self := by
  obtain ⟨ht, hn, hdet⟩ := determineAddr_ok_fst hd
  have h1 : create isCid H s name ty o =
      (.error .exists, putNet s (recHash H s name ty o) ⟨name, ty, recAcl s o⟩) := by
    unfold create
    rw [determineAddr_of ht hn hdet]
    have hl' : haveLocal (putNet s (recHash H s name ty o) ⟨name, ty, recAcl s o⟩) a = true :=
      (haveLocal_iff _ _).mpr hl
    simp only [hl', ho, Bool.not_false, Bool.and_self, if_true]
  rw [h1]
  exact ⟨rfl, rfl, rfl, rfl⟩

/-- writing a block that is already retrievable changes no read -/
theorem putNet_same_fetch (s : St) (h : String) (m : Manifest) (hm : fetch s.net h = some m)
    (k : String) : fetch (putNet s h m).net k = fetch s.net k := by
  simp only [fetch, putNet, List.lookup_cons]
  by_cases hk : (k == h) = true
  · have : k = h := by simpa using hk
    subst this
    simp only [beq_self_eq_true]
    exact hm.symm
  · simp only [hk]

/-- ... and with overwrite requested (what `Open` sets when it falls back to `Create`) the same
call succeeds -/
theorem create_overwrite_ok (s : St) (name ty : String) (o : Opts) (a : Addr)
    (hd : (determineAddr isCid H s name ty o.acl).1 = .ok a)
    (hc : isCid (recHash H s name ty o) = true) (hs : Seg (recHash H s name ty o))
    (ho : o.overwrite = true) :
    (create isCid H s name ty o).1 = .ok (a, ty, recAcl s o) := by
  obtain ⟨ht, hn, hdet⟩ := determineAddr_ok_fst hd
  rw [create_of ht hn hdet hc hs]
  simp [ho]

/-- **the address `Create` returns is `determine isCid (H name ty acl) name`** (with the write list
defaulted to the instance's own identity when empty, U5): it depends on the state only through
`self`, and not at all when a write list is given. The store type and write list are the given ones. -/
theorem create_address_deterministic (s : St) (name ty : String) (o : Opts) (out : Out)
    (hc : isCid (recHash H s name ty o) = true) (hs : Seg (recHash H s name ty o))
    (h : (create isCid H s name ty o).1 = .ok out) :
    determine isCid (H name ty (effAcl s.self o.acl)) name = some out.1 ∧
    out.2.1 = ty ∧ out.2.2 = effAcl s.self o.acl := by
  obtain ⟨a, hd⟩ := create_ok_determine h
  obtain ⟨ht, hn, hdet⟩ := determineAddr_ok_fst hd
  rw [create_of ht hn hdet hc hs] at h
  split at h
  · cases h
  · injection h with h
    subst h
    exact ⟨hdet, rfl, rfl⟩

/-- two instances (any caches, any IPFS contents, any registered types) asked to create the same
database with the same non-empty write list get the same address -/
theorem create_address_state_independent (s s' : St) (name ty : String) (o : Opts) (out out' : Out)
    (hacl : o.acl ≠ [])
    (hc : isCid (H name ty o.acl) = true) (hs : Seg (H name ty o.acl))
    (h : (create isCid H s name ty o).1 = .ok out)
    (h' : (create isCid H s' name ty o).1 = .ok out') : out = out' := by
  have he : ∀ x : String, effAcl x o.acl = o.acl := by
    intro x; unfold effAcl
    cases hq : o.acl with
    | nil => exact absurd hq hacl
    | cons _ _ => rfl
  have h1 := create_address_deterministic s name ty o out
    (by unfold recHash recAcl; rw [he]; exact hc) (by unfold recHash recAcl; rw [he]; exact hs) h
  have h2 := create_address_deterministic s' name ty o out'
    (by unfold recHash recAcl; rw [he]; exact hc) (by unfold recHash recAcl; rw [he]; exact hs) h'
  rw [he] at h1 h2
  obtain ⟨a1, t1, w1⟩ := out
  obtain ⟨a2, t2, w2⟩ := out'
  simp only at h1 h2
  obtain ⟨hd1, rfl, rfl⟩ := h1
  obtain ⟨hd2, rfl, rfl⟩ := h2
  rw [hd1] at hd2
  injection hd2 with hd2
  rw [hd2]

end Orbit.OC
