import OrbitModel.Proofs.LoadFresh
/-!
# `Load`'s second `Join(l, n)` is a trim   (C15, finding F30)

After the F30 repair `Load` joins the fetched log without a trim and then, when the listing is longer
than the limit, calls `Join(l, n)` again. `Model/Store.lean` models that second call as what is left
of it (`trim` + clock update). Here the exact form — `joinSize` called twice — is shown to be that, for
every log that satisfies the invariant of `Proofs/LogJoin.lean` (every log reachable by appends and
honest joins): the second join finds nothing new (the heads of `l` are held after the first), so the
entries stay, the invariant is kept, and the listing is the same.
-/
namespace Orbit

theorem diffLoop_held_nil (A : OMap) (L : Log) : ∀ (fuel : Nat) (stack trav : List Nat),
    (∀ h ∈ stack, has L.entries h = true) → diffLoop A L fuel stack trav [] = [] := by
  intro fuel
  induction fuel with
  | zero => intros; rfl
  | succ f ih =>
    intro stack trav hs
    cases stack with
    | nil => rfl
    | cons hd tl =>
      simp only [diffLoop]
      have hh : has L.entries hd = true := hs hd List.mem_cons_self
      cases hg : get A hd with
      | none => exact ih tl trav (fun x hx => hs x (List.mem_cons_of_mem _ hx))
      | some eA =>
        simp only [hh, Bool.not_true, Bool.false_and, Bool.false_eq_true, if_false]
        exact ih tl trav (fun x hx => hs x (List.mem_cons_of_mem _ hx))

/-- when every head of the incoming log is held, `difference` finds nothing -/
theorem difference_heads_held (A headsA : OMap) (L : Log)
    (h : ∀ e ∈ headsA, has L.entries e.hash = true) : difference A headsA L = [] := by
  unfold difference
  apply diffLoop_held_nil
  intro x hx
  obtain ⟨e, he, rfl⟩ := List.mem_map.mp hx
  exact h e he

/-- the exact form of one head of `Load(amount)` after the F30 repair: `Join(l, -1)`, then `Join(l, amount)`
when the listing is longer than `amount` -/
def loadHeadExact (acl : Acl) (fetch : Nat → OMap) (amount : Int) (L : Log) (h : Nat) : Except Err Log :=
  let l := logOfEntries L.id (fetch h)
  match joinSize acl.canAppend L l.entries l.heads l.id (-1) with
  | .ok L' =>
    if amount > -1 && (values L').length > amount then
      match joinSize acl.canAppend L' l.entries l.heads l.id amount with
      | .ok L'' => .ok L''
      | .error .panic => .error .panic
      | .error _ => .ok L'
    else .ok L'
  | .error .panic => .error .panic
  | .error _ => .ok L

/-- the second join of `Load`, on the log the first one produced: nothing new, same listing -/
theorem rejoin_values {U : List Entry} (hU : HashDet U) (hT : TieFree U) (hM : ClockMono U) {L : Log}
    {F : List Entry} (hG : Good U L) (hF : Fetched U L F) :
    let m := ofList F
    let hs := ofList (findHeads m)
    let J := bumpClock (joinCore L m hs L.id)
    difference m hs J = [] ∧ Inv U J ∧ J.entries.Nodup ∧ J.id = L.id ∧
    Inv U (joinCore J m hs J.id) ∧ (joinCore J m hs J.id).entries.Nodup ∧
    values (joinCore J m hs J.id) = values J := by
  intro m hs J
  obtain ⟨hI1, hnd1⟩ := fetched_joinCore hU hG hF
  have hA := fetched_honest hF
  have hlid := fetched_lid hF
  have hJid : J.id = L.id := by
    show (joinCore L m hs L.id).id = L.id
    rw [joinCore_eq _ _ _ _ rfl]
  have hIJ : Inv U J := ⟨hI1.sub, hI1.heads, hI1.nidx, hI1.hnodup⟩
  have hndJ : J.entries.Nodup := hnd1
  -- every head of the fetched log is held after the first join
  have hheld : ∀ e ∈ hs, has J.entries e.hash = true := by
    intro e he
    apply (has_iff _ _).mpr
    refine ⟨e, ?_, rfl⟩
    show e ∈ (joinCore L m hs L.id).entries
    rw [joinCore_eq _ _ _ _ rfl]
    show e ∈ merge L.entries (difference m hs L)
    rcases heads_complete hU L m hs hA hG.inv.sub hlid e he with h | h
    · exact mem_merge_of_left _ _ e h
    · exact mem_merge_of_right hU _ _ hG.inv.sub
        (fun x hx => hA.sub x (difference_item _ _ _ x hx).1) e h
  have hdiff : difference m hs J = [] := difference_heads_held m hs J hheld
  have hlidJ : ∀ e ∈ m, e.logId = J.id := fun e he => (hlid e he).trans hJid.symm
  have hI2 : Inv U (joinCore J m hs J.id) := inv_joinCore_honest hU J m hs J.id hIJ hA hlidJ
  have hnd2 : (joinCore J m hs J.id).entries.Nodup := nodup_joinCore J m hs J.id hndJ
  refine ⟨hdiff, hIJ, hndJ, hJid, hI2, hnd2, ?_⟩
  apply values_unique hU hT hM _ _ hI2 hnd2 hIJ hndJ
  intro x
  rw [joinCore_eq _ _ _ _ rfl]
  show x ∈ merge J.entries (difference m hs J) ↔ x ∈ J.entries
  rw [hdiff]
  exact Iff.rfl

theorem loadHeadExact_eq (acl : Acl) (fetch : Nat → OMap) (amount : Int) (L : Log) (h : Nat) :
    loadHeadExact acl fetch amount L h =
      match joinSize acl.canAppend L (ofList (fetch h)) (ofList (findHeads (ofList (fetch h)))) L.id (-1) with
      | .ok L' =>
        if amount > -1 && (values L').length > amount then
          match joinSize acl.canAppend L' (ofList (fetch h)) (ofList (findHeads (ofList (fetch h)))) L.id amount with
          | .ok L'' => .ok L''
          | .error .panic => .error .panic
          | .error _ => .ok L'
        else .ok L'
      | .error .panic => .error .panic
      | .error _ => .ok L := rfl

/-- **for every log satisfying the invariant, the exact two-`Join` form of `Load`'s head step lists
what the modelled form lists, and never panics**: the modelling shortcut of `Model/Store.lean` is
justified wherever the invariant holds -/
theorem loadHeadExact_is_loadHead {U : List Entry} (hU : HashDet U) (hT : TieFree U) (hM : ClockMono U)
    (acl : Acl) (fetch : Nat → OMap) (amount : Int) {L : Log} (h : Nat) (hG : Good U L)
    (hF : Fetched U L (fetch h)) :
    loadHeadExact acl fetch amount L h ≠ .error .panic ∧
    ∀ r, loadHeadExact acl fetch amount L h = .ok r →
      ∃ r', loadHead1 acl fetch amount L h = .ok r' ∧ values r = values r' := by
  obtain ⟨hdiff, hIJ, hndJ, hJid, hI2, hnd2, hv2⟩ := rejoin_values hU hT hM hG hF
  rw [loadHeadExact_eq, loadHead1_eq]
  generalize hm : ofList (fetch h) = m at *
  generalize hJ : bumpClock (joinCore L m (ofList (findHeads m)) L.id) = J at *
  rcases joinSize_cases acl.canAppend L m (ofList (findHeads m)) (-1) with ⟨_, e, he, hne⟩ | ⟨_, hj⟩
  · rw [he]
    cases e <;> first | exact absurd rfl hne | exact ⟨(fun hc => by cases hc), fun r hr => ⟨r, hr, rfl⟩⟩
  · rw [hj, if_neg (by decide), hJ]
    dsimp only
    split
    · rename_i hc
      simp only [Bool.and_eq_true, decide_eq_true_eq] at hc
      -- the second join: our own id, nothing new, hence the trim of the re-joined log
      have hj2 : joinSize acl.canAppend J m (ofList (findHeads m)) L.id amount =
          (trim (joinCore J m (ofList (findHeads m)) J.id) amount.toNat).map bumpClock := by
        rw [← hJid]
        rcases joinSize_cases acl.canAppend J m (ofList (findHeads m)) amount with ⟨hna, _⟩ | ⟨_, hj2⟩
        · rw [hdiff] at hna; exact absurd rfl hna
        · rw [hj2, if_pos hc.1]
      rw [hj2]
      obtain ⟨T2, ht2⟩ := trim_ok (L := joinCore J m (ofList (findHeads m)) J.id) (size := amount.toNat)
        (by rw [hv2]; omega)
      obtain ⟨T1, ht1⟩ := trim_ok (L := J) (size := amount.toNat) (by omega)
      obtain ⟨_, hvT2, _, _, _⟩ := trim_values_inv hU hT hM hI2 hnd2 ht2
      obtain ⟨_, hvT1, _, _, _⟩ := trim_values_inv hU hT hM hIJ hndJ ht1
      rw [ht2, ht1]
      refine ⟨(fun hc' => by cases hc'), fun r hr => ?_⟩
      have : r = bumpClock T2 := by
        simp only [Except.map] at hr
        injection hr with hr; exact hr.symm
      subst this
      exact ⟨bumpClock T1, rfl, by rw [values_bumpClock, values_bumpClock, hvT2, hvT1, hv2]⟩
    · exact ⟨(fun hc' => by cases hc'), fun r hr => ⟨r, hr, rfl⟩⟩

end Orbit
