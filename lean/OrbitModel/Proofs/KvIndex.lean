import OrbitModel.Proofs.IndexScan
/-!
# The key-value index equals last-writer-wins replay

`kvIndex.UpdateIndex` scans `Values()` newest → oldest with a `handled` set and mutates the
existing map, which is never cleared. Provided the listing only contains PUT/DEL operations (the
kv API writes nothing else) and every key of the old index is mentioned in the listing, the result
is the plain oldest → newest replay from the empty map. Since a store's listing only grows,
"index ≃ replay of the current listing" is an invariant from the empty index.
-/
namespace Orbit

/-- the `Key` field of an operation as the kv index sees it (`PUTALL` carries key `""`) -/
def opKey : Op → Option String
  | .put k _ => some k
  | .del k => some k
  | .putAll _ => some ""
  | _ => none

/-- some operation of the listing names key `k` -/
def mentions (vs : List Entry) (k : String) : Prop := ∃ e ∈ vs, opKey e.op = some k

/-- the kv API only writes PUT and DEL -/
def KvOps (vs : List Entry) : Prop := ∀ e ∈ vs, ∀ d, e.op ≠ .putAll d

/-- the atomic writes of a kv operation -/
def kvWop : Op → List Wr
  | .put k v => [(k, some v)]
  | .del k => [(k, none)]
  | _ => []

def kvW (e : Entry) : List Wr := kvWop e.op

/-! ### bridging the model definitions to the generic scan/replay -/

theorem lwwStep_eq (m : KV) (e : Entry) : lwwStep m e = (kvW e).foldl applyW m := by
  unfold lwwStep kvW
  cases e.op <;> rfl

theorem lwwReplay_eq (vs : List Entry) : lwwReplay vs = replayW kvW vs :=
  foldl_eq_flat lwwStep applyW kvW vs [] (fun e _ acc => lwwStep_eq acc e)

theorem kvStep_eq (acc : List String × KV) (e : Entry) (h : ∀ d, e.op ≠ .putAll d) :
    kvStep acc e = (kvW e).foldl wStep acc := by
  unfold kvStep kvW
  cases ho : e.op with
  | put k v => simp only [kvWop, List.foldl_cons, List.foldl_nil, wStep, applyW]
  | del k => simp only [kvWop, List.foldl_cons, List.foldl_nil, wStep, applyW]
  | putAll d => exact absurd ho (h d)
  | add v => rfl
  | other => rfl

theorem kvUpdate_eq (idx : KV) (vs : List Entry) (hops : KvOps vs) :
    kvUpdate idx vs = scanW kvW idx vs := by
  unfold kvUpdate scanW
  rw [foldl_eq_flat kvStep wStep kvW vs.reverse ([], idx)
    (fun e he acc => kvStep_eq acc e (hops e (List.mem_reverse.mp he)))]

theorem nodupW_kvW (vs : List Entry) : NodupW kvW vs := by
  intro e _
  unfold kvW
  cases e.op <;> simp [kvWop]

theorem mem_kvW_keys {e : Entry} {k : String} (h : k ∈ (kvW e).map (·.1)) : opKey e.op = some k := by
  unfold kvW at h
  cases ho : e.op <;> rw [ho] at h <;> simp [kvWop] at h <;> simp [opKey, h]

theorem kvW_keys_of_opKey {e : Entry} {k : String} (hp : ∀ d, e.op ≠ .putAll d)
    (h : opKey e.op = some k) : k ∈ (kvW e).map (·.1) := by
  unfold kvW
  cases ho : e.op with
  | put k' v => rw [ho] at h; simp only [opKey, Option.some.injEq] at h; simp [kvWop, h]
  | del k' => rw [ho] at h; simp only [opKey, Option.some.injEq] at h; simp [kvWop, h]
  | putAll d => exact absurd ho (hp d)
  | add v => rw [ho] at h; simp [opKey] at h
  | other => rw [ho] at h; simp [opKey] at h

theorem writesW_kvW_iff {vs : List Entry} (hops : KvOps vs) (k : String) :
    writesW kvW vs k ↔ mentions vs k :=
  ⟨fun ⟨e, he, hk⟩ => ⟨e, he, mem_kvW_keys hk⟩,
   fun ⟨e, he, hk⟩ => ⟨e, he, kvW_keys_of_opKey (hops e he) hk⟩⟩

/-- a key present in the replay is mentioned by the listing (no hypothesis on the operations) -/
theorem mentions_of_get_lwwReplay {vs : List Entry} {k : String}
    (h : (KV.get (lwwReplay vs) k).isSome) : mentions vs k := by
  rw [lwwReplay_eq] at h
  obtain ⟨e, he, hk⟩ := writesW_of_get_replayW h
  exact ⟨e, he, mem_kvW_keys hk⟩

/-! ### main theorems -/

/-- **kv index = LWW replay.** -/
theorem kvUpdate_eq_replay (idx : KV) (vs : List Entry) (hops : KvOps vs)
    (hpre : ∀ k, (KV.get idx k).isSome → mentions vs k) :
    KV.equiv (kvUpdate idx vs) (lwwReplay vs) := by
  rw [kvUpdate_eq idx vs hops, lwwReplay_eq]
  exact scanW_eq_replayW kvW idx vs (nodupW_kvW vs)
    (fun k hk => (writesW_kvW_iff hops k).mpr (hpre k hk))

/-- the invariant "index ≃ replay of the current listing" is kept when the listing grows -/
theorem kv_inv_step (idx : KV) (vs vs' : List Entry) (hops : KvOps vs')
    (hinv : KV.equiv idx (lwwReplay vs)) (hsub : ∀ e ∈ vs, e ∈ vs') :
    KV.equiv (kvUpdate idx vs') (lwwReplay vs') := by
  apply kvUpdate_eq_replay idx vs' hops
  intro k hk
  rw [hinv k] at hk
  obtain ⟨e, he, hke⟩ := mentions_of_get_lwwReplay hk
  exact ⟨e, hsub e he, hke⟩

/-- along any sequence of growing listings, starting from the empty index, the index ends up
equivalent to the replay of the last listing -/
theorem kv_inv_chain (l : List (List Entry)) (hg : Grows l) (hops : ∀ vs ∈ l, KvOps vs) :
    KV.equiv (l.foldl kvUpdate []) (lwwReplay (l.getLastD [])) :=
  inv_chain_gen kvUpdate lwwReplay KvOps kv_inv_step l [] [] (KV.equiv_refl _)
    (grows_nil_cons l hg) hops

/-- the value replay gives a key is decided by the last operation on that key -/
theorem lastW_kvW_append (vs₁ vs₂ : List Entry) (u : Entry) (k : String)
    (hlater : ∀ e ∈ vs₂, opKey e.op ≠ some k) :
    lastW kvW (vs₁ ++ u :: vs₂) k = (firstW (kvW u).reverse k).or (lastW kvW vs₁ k) := by
  unfold lastW
  have hnone : firstW (vs₂.flatMap kvW).reverse k = none := by
    rw [firstW_eq_none, List.map_reverse, List.mem_reverse, List.mem_map]
    rintro ⟨w, hw, hk⟩
    obtain ⟨e, he, hwe⟩ := List.mem_flatMap.mp hw
    exact hlater e he (mem_kvW_keys (List.mem_map.mpr ⟨w, hwe, hk⟩))
  rw [List.flatMap_append, List.flatMap_cons, List.reverse_append, List.reverse_append,
    firstW_append, firstW_append, hnone, Option.none_or]

/-- a PUT listed after every other operation on its key wins -/
theorem lww_last_wins (vs₁ vs₂ : List Entry) (u : Entry) (k v : String) (hu : u.op = .put k v)
    (hlater : ∀ e ∈ vs₂, opKey e.op ≠ some k) :
    KV.get (lwwReplay (vs₁ ++ u :: vs₂)) k = some v := by
  rw [lwwReplay_eq, get_replayW, lastW_kvW_append vs₁ vs₂ u k hlater]
  simp [kvW, hu, kvWop, firstW]

/-- a DEL listed after every other operation on its key wins -/
theorem lww_last_wins_del (vs₁ vs₂ : List Entry) (u : Entry) (k : String) (hu : u.op = .del k)
    (hlater : ∀ e ∈ vs₂, opKey e.op ≠ some k) :
    KV.get (lwwReplay (vs₁ ++ u :: vs₂)) k = none := by
  rw [lwwReplay_eq, get_replayW, lastW_kvW_append vs₁ vs₂ u k hlater]
  simp [kvW, hu, kvWop, firstW]

/-- an operation on another key (or no key) does not change what replay says about `k` -/
theorem lww_other_key (vs : List Entry) (u : Entry) (k : String) (hu : opKey u.op ≠ some k) :
    KV.get (lwwReplay (vs ++ [u])) k = KV.get (lwwReplay vs) k := by
  have hnone : firstW (kvW u).reverse k = none := by
    rw [firstW_eq_none, List.map_reverse, List.mem_reverse]
    exact fun h => hu (mem_kvW_keys h)
  rw [lwwReplay_eq, lwwReplay_eq, get_replayW, get_replayW,
    lastW_kvW_append vs [] u k (fun _ h => absurd h List.not_mem_nil), hnone, Option.none_or]

/-! ### non-vacuity and necessity of the hypotheses -/

private def mk (h : Nat) (o : Op) : Entry := { hash := h, logId := 1, time := h, cid := 0, next := [], op := o }

/-- a listing with overwrites and a delete, and an old index holding stale values -/
private def exVs : List Entry :=
  [mk 1 (.put "a" "1"), mk 2 (.put "b" "2"), mk 3 (.del "a"), mk 4 (.put "b" "3"), mk 5 (.put "c" "4")]
private def exIdx : KV := [("a", "1"), ("b", "2")]

example : KV.equiv (kvUpdate exIdx exVs) (lwwReplay exVs) := by
  apply kvUpdate_eq_replay
  · intro e he d
    simp only [exVs, List.mem_cons, List.not_mem_nil, or_false] at he
    rcases he with rfl | rfl | rfl | rfl | rfl <;> simp [mk]
  · intro k hk
    have : k = "a" ∨ k = "b" := by
      simp only [exIdx, KV.get_cons, KV.get_nil] at hk
      by_cases ha : k = "a"
      · exact Or.inl ha
      · by_cases hb : k = "b"
        · exact Or.inr hb
        · simp [ha, hb] at hk
    rcases this with rfl | rfl
    · exact ⟨mk 1 (.put "a" "1"), by simp [exVs], rfl⟩
    · exact ⟨mk 2 (.put "b" "2"), by simp [exVs], rfl⟩

/-- and the concrete outcome: `a` deleted, `b` overwritten, `c` added (the association lists differ
in order only, which `KV.equiv` ignores as Go map iteration order is not observable) -/
example : kvUpdate exIdx exVs = [("b", "3"), ("c", "4")] ∧ lwwReplay exVs = [("c", "4"), ("b", "3")] := by
  decide

/-- the precondition is necessary: the index is never cleared, so a stale key that the listing
does not mention survives `UpdateIndex` although replay does not have it -/
theorem kvUpdate_stale_witness :
    KV.get (kvUpdate [("stale", "x")] [mk 1 (.put "a" "1")]) "stale" = some "x" ∧
    KV.get (lwwReplay [mk 1 (.put "a" "1")]) "stale" = none ∧
    ¬ mentions [mk 1 (.put "a" "1")] "stale" := by
  refine ⟨by decide, by decide, ?_⟩
  rintro ⟨e, he, hk⟩
  simp only [List.mem_cons, List.not_mem_nil, or_false] at he
  subst he
  simp [mk, opKey] at hk

/-- `KvOps` is necessary: a PUTALL entry in a kv log has key `""` and an op that is neither PUT nor
DEL; the loop marks `""` handled without writing, hiding an older PUT of key `""` -/
theorem kvUpdate_putAll_quirk :
    KV.get (kvUpdate [] [mk 1 (.put "" "v"), mk 2 (.putAll [])]) "" = none ∧
    KV.get (lwwReplay [mk 1 (.put "" "v"), mk 2 (.putAll [])]) "" = some "v" := by
  decide

end Orbit
