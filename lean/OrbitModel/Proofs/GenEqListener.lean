import OrbitModel.Generated.GenListener
/-!
# Regenerated Go fragment = hand-written model (tie 2); one small module per fragment, so that a
change to one Go function only stops the theorems tied to it
-/
namespace Orbit

/-- no statement of the Go text of this run ends a message-listener loop on an error -/
theorem gen_listener_never_exits : Gen.listenerExitsOnError = 0 := by decide

end Orbit
