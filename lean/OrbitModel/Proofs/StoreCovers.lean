import OrbitModel.Proofs.Covers
import OrbitModel.Model.Store
/-!
# The cached heads of a store cover its log   (C05, C02)

`StoreCovers s`: every entry of the log is reachable from `_localHeads ++ _remoteHeads`.
Preserved by `AddOperation` (allowed or denied); established by every `replicationLoadComplete`,
whichever logs of the batch are rejected (a rejected log is skipped, `_remoteHeads` is always
rewritten). In the pinned tree an aborted `replicationLoadComplete` broke it (the joins done before
the failing one stayed in the log, the cache was not rewritten): `loadEndPinned_abort_uncovered`.
-/
namespace Orbit

def Store.cachedHeads (s : Store) : List Nat := (s.localHeads.getD []) ++ (s.remoteHeads.getD [])

def StoreCovers (s : Store) : Prop := CoveredBy s.log s.cachedHeads

/-! ### projections of `Store.addOp` -/

theorem append_snd (canAppend : Entry → Bool) (L : Log) (mk : Nat → List Nat → Entry) :
    (append canAppend L mk).2 =
      if canAppend (mk (appendTime L) (appendNext L)) then .ok (mk (appendTime L) (appendNext L))
      else .error .denied := by
  unfold append
  simp only
  split <;> rfl

theorem addOp0_log (acl : Acl) (s : Store) (mk : Nat → List Nat → Entry) :
    (s.addOp0 acl mk).1.log = (append acl.canAppend s.log mk).1 := by
  unfold Store.addOp0
  split <;> (rename_i h; rw [h])

theorem addOp0_snd (acl : Acl) (s : Store) (mk : Nat → List Nat → Entry) :
    (s.addOp0 acl mk).2 = (append acl.canAppend s.log mk).2 := by
  unfold Store.addOp0
  split <;> (rename_i h; rw [h])

theorem addOp0_remoteHeads (acl : Acl) (s : Store) (mk : Nat → List Nat → Entry) :
    (s.addOp0 acl mk).1.remoteHeads = s.remoteHeads := by
  unfold Store.addOp0
  split <;> rfl

theorem addOp0_localHeads (acl : Acl) (s : Store) (mk : Nat → List Nat → Entry) :
    (s.addOp0 acl mk).1.localHeads =
      if acl.canAppend (mk (appendTime s.log) (appendNext s.log)) then
        some [(mk (appendTime s.log) (appendNext s.log)).hash]
      else s.localHeads := by
  have h2 := append_snd acl.canAppend s.log mk
  unfold Store.addOp0
  split
  · rename_i L' e h
    rw [h] at h2
    split at h2
    · cases h2
    · rename_i hc; simp only [hc]; rfl
  · rename_i L' e h
    rw [h] at h2
    split at h2
    · rename_i hc
      injection h2 with h2
      simp only [hc, if_true, h2]
    · cases h2

/-- `addOp` is `addOp0` with another `_localHeads` (and only when the write went through) -/
theorem addOp_eq (acl : Acl) (s : Store) (mk : Nat → List Nat → Entry) :
    s.addOp acl mk =
      match (s.addOp0 acl mk).2 with
      | .error _ => s.addOp0 acl mk
      | .ok e => ({ (s.addOp0 acl mk).1 with
          localHeads := some (e.hash :: keptHeads s.localHeads s.log) }, .ok e) := by
  unfold Store.addOp
  rcases h : s.addOp0 acl mk with ⟨s', r⟩
  cases r <;> rfl

theorem addOp_log (acl : Acl) (s : Store) (mk : Nat → List Nat → Entry) :
    (s.addOp acl mk).1.log = (append acl.canAppend s.log mk).1 := by
  rw [addOp_eq, ← addOp0_log]
  split <;> rfl

theorem addOp_snd (acl : Acl) (s : Store) (mk : Nat → List Nat → Entry) :
    (s.addOp acl mk).2 = (append acl.canAppend s.log mk).2 := by
  rw [addOp_eq, ← addOp0_snd]
  split
  · rfl
  · rename_i e h; exact h.symm

theorem addOp_remoteHeads (acl : Acl) (s : Store) (mk : Nat → List Nat → Entry) :
    (s.addOp acl mk).1.remoteHeads = s.remoteHeads := by
  rw [addOp_eq, ← addOp0_remoteHeads acl s mk]
  split <;> rfl

theorem addOp_localHeads (acl : Acl) (s : Store) (mk : Nat → List Nat → Entry) :
    (s.addOp acl mk).1.localHeads =
      if acl.canAppend (mk (appendTime s.log) (appendNext s.log)) then
        some ((mk (appendTime s.log) (appendNext s.log)).hash :: keptHeads s.localHeads s.log)
      else s.localHeads := by
  have h2 := addOp0_snd acl s mk
  rw [append_snd] at h2
  rw [addOp_eq]
  split
  · rename_i e h
    rw [h] at h2
    split at h2
    · cases h2
    · rename_i hc
      rw [addOp0_localHeads]; simp only [hc]; rfl
  · rename_i e h
    rw [h] at h2
    split at h2
    · rename_i hc
      injection h2 with h2
      simp only [hc, if_true, h2]
    · cases h2

/-- the side conditions of a local write (those of `Step.appendOk`), needed only when the access
controller allows the entry -/
def WriteOk (acl : Acl) (U : List Entry) (L : Log) (mk : Nat → List Nat → Entry) : Prop :=
  acl.canAppend (mk (appendTime L) (appendNext L)) = true →
    mk (appendTime L) (appendNext L) ∈ U ∧
    (mk (appendTime L) (appendNext L)).next = appendNext L ∧
    (mk (appendTime L) (appendNext L)).time = appendTime L ∧
    has L.entries (mk (appendTime L) (appendNext L)).hash = false

theorem writeOk_step {acl : Acl} {U : List Entry} {L : Log} {mk : Nat → List Nat → Entry}
    (hw : WriteOk acl U L mk) : Step acl.canAppend U L (append acl.canAppend L mk).1 := by
  cases hc : acl.canAppend (mk (appendTime L) (appendNext L))
  · exact .appendDenied L mk hc
  · obtain ⟨h1, h2, h3, h4⟩ := hw hc
    exact .appendOk L mk h1 h2 h3 h4 hc

theorem addOp_good {acl : Acl} {U : List Entry} (hU : HashDet U) (hM : ClockMono U) {s : Store}
    {mk : Nat → List Nat → Entry} (hG : Good U s.log) (hw : WriteOk acl U s.log mk) :
    Good U (s.addOp acl mk).1.log := by
  rw [addOp_log]; exact good_step hU hM hG (writeOk_step hw)

/-- **`AddOperation` preserves `StoreCovers`** (allowed: the new `_localHeads` alone covers the log;
denied: neither the entries nor the cache change) -/
theorem addOp_covers {acl : Acl} {U : List Entry} (hM : ClockMono U) {s : Store}
    {mk : Nat → List Nat → Entry} (hG : Good U s.log) (hw : WriteOk acl U s.log mk)
    (hc : StoreCovers s) : StoreCovers (s.addOp acl mk).1 := by
  unfold StoreCovers Store.cachedHeads
  rw [addOp_log, addOp_localHeads, addOp_remoteHeads]
  cases hcan : acl.canAppend (mk (appendTime s.log) (appendNext s.log))
  · simp only [Bool.false_eq_true, if_false]
    apply CoveredBy.of_entries_eq hc
    rw [append_eq, hcan]; rfl
  · obtain ⟨_, h2, _, h4⟩ := hw hcan
    simp only [if_true, Option.getD_some]
    exact (append_covers hM acl.canAppend s.log mk hG h2 h4 hcan).mono_heads
      (fun x hx => List.mem_append_left _ (by
        rcases List.mem_singleton.mp hx with rfl; exact List.mem_cons_self))

/-! ### `replicationLoadComplete` -/

/-- the logs handed to `replicationLoadComplete` are honest and carry our log id -/
def BatchHonest (U : List Entry) (id : Nat) (logs : List (OMap × OMap)) : Prop :=
  ∀ p ∈ logs, Honest U p.1 p.2 ∧ ∀ e ∈ p.1, e.logId = id

theorem join_id {canAppend : Entry → Bool} {L L' : Log} {A headsA : OMap} {Aid : Nat}
    (h : join canAppend L A headsA Aid = .ok L') : L'.id = L.id := by
  rcases join_ok_cases h with ⟨_, rfl⟩ | ⟨hid, _, rfl⟩
  · rfl
  · rw [joinCore_eq L A headsA Aid hid]; rfl

theorem joinAll_cons (acl : Acl) (L : Log) (es hs : OMap) (rest : List (OMap × OMap)) :
    joinAll acl L ((es, hs) :: rest) =
      match join acl.canAppend L es hs L.id with
      | .ok L' => joinAll acl L' rest
      | .error _ => joinAll acl L rest := rfl

/-- **`joinAll` keeps a good log good**, whichever logs of the batch are rejected; it also keeps the
id and the entries the log had -/
theorem joinAll_good' {acl : Acl} {U : List Entry} (hU : HashDet U) (hM : ClockMono U) :
    ∀ (logs : List (OMap × OMap)) (L : Log), Good U L → BatchHonest U L.id logs →
      Good U (joinAll acl L logs) ∧ (joinAll acl L logs).id = L.id ∧
      ∀ e ∈ L.entries, e ∈ (joinAll acl L logs).entries := by
  intro logs
  induction logs with
  | nil => intro L hG _; exact ⟨hG, rfl, fun _ h => h⟩
  | cons p rest ih =>
    intro L hG hB
    obtain ⟨es, hs⟩ := p
    have hB' : BatchHonest U L.id rest := fun q hq => hB q (List.mem_cons_of_mem _ hq)
    rw [joinAll_cons]
    cases hj : join acl.canAppend L es hs L.id with
    | error _ => exact ih L hG hB'
    | ok L' =>
      obtain ⟨hA, hid⟩ := hB (es, hs) List.mem_cons_self
      have hG' : Good U L' := good_step hU hM hG (.join L L' es hs L.id hA hid hj)
      have hid' : L'.id = L.id := join_id hj
      obtain ⟨h1, h2, h3⟩ := ih L' hG' (hid' ▸ hB')
      exact ⟨h1, h2.trans hid', fun e he => h3 e (join_mono hj e he)⟩

/-- a `Good U` log stays `Good U` through `joinAll` of an honest batch, whatever logs are rejected -/
theorem joinAll_good {acl : Acl} {U : List Entry} (hU : HashDet U) (hM : ClockMono U) {L : Log}
    {logs : List (OMap × OMap)} (hG : Good U L) (hB : BatchHonest U L.id logs) :
    Good U (joinAll acl L logs) :=
  (joinAll_good' (acl := acl) hU hM logs L hG hB).1

theorem joinAll_id {acl : Acl} {U : List Entry} (hU : HashDet U) (hM : ClockMono U) {L : Log}
    {logs : List (OMap × OMap)} (hG : Good U L) (hB : BatchHonest U L.id logs) :
    (joinAll acl L logs).id = L.id :=
  (joinAll_good' (acl := acl) hU hM logs L hG hB).2.1

/-- `joinAll` never removes an entry (any batch, honest or not) -/
theorem joinAll_mono (acl : Acl) : ∀ (logs : List (OMap × OMap)) (L : Log),
    ∀ e ∈ L.entries, e ∈ (joinAll acl L logs).entries := by
  intro logs
  induction logs with
  | nil => intro L e he; exact he
  | cons p rest ih =>
    intro L e he
    obtain ⟨es, hs⟩ := p
    rw [joinAll_cons]
    cases hj : join acl.canAppend L es hs L.id with
    | error _ => exact ih L e he
    | ok L' => exact ih L' e (join_mono hj e he)

theorem loadEnd_log (acl : Acl) (s : Store) (logs : List (OMap × OMap)) :
    (s.loadEnd acl logs).log = joinAll acl s.log logs := rfl

/-- the cache after `replicationLoadComplete`: `_localHeads` untouched, `_remoteHeads` rewritten
with all the heads of the merged log, followed by the cached remote heads the log has no entry for —
unconditionally -/
theorem loadEnd_heads (acl : Acl) (s : Store) (logs : List (OMap × OMap)) :
    (s.loadEnd acl logs).localHeads = s.localHeads ∧
    (s.loadEnd acl logs).remoteHeads = some ((sortedHeads (s.loadEnd acl logs).log).map (·.hash) ++
      keptHeads s.remoteHeads (s.loadEnd acl logs).log) :=
  ⟨rfl, rfl⟩

/-- **nothing the cache pointed to is forgotten**: every remote head cached before a
`replicationLoadComplete` is cached after it, or the log now holds it (and then the new heads
cover it, `loadEnd_covers`) — whatever the store had loaded, with whatever limit (finding F26) -/
theorem loadEnd_keeps_cached (acl : Acl) (s : Store) (logs : List (OMap × OMap)) :
    ∀ h ∈ s.remoteHeads.getD [], h ∈ (s.loadEnd acl logs).remoteHeads.getD [] ∨
      has (s.loadEnd acl logs).log.entries h = true := by
  intro h hh
  rw [(loadEnd_heads acl s logs).2]
  simp only [Option.getD_some, List.mem_append]
  by_cases hl : has (s.loadEnd acl logs).log.entries h = true
  · exact Or.inr hl
  · left; right
    simp only [keptHeads, List.mem_filter]
    exact ⟨hh, by simpa using hl⟩

/-- on a store whose log holds everything its cache points to (any store that loaded without a
limit) the rule changes nothing: the heads written are the heads of the merged log -/
theorem loadEnd_eq_loadEnd0 (acl : Acl) (s : Store) (logs : List (OMap × OMap))
    (h : ∀ x ∈ s.remoteHeads.getD [], has s.log.entries x = true) :
    s.loadEnd acl logs = s.loadEnd0 acl logs := by
  have hk : keptHeads s.remoteHeads (s.loadEnd0 acl logs).log = [] := by
    simp only [keptHeads, List.filter_eq_nil_iff]
    intro x hx
    obtain ⟨y, hy, hyx⟩ := (has_iff _ _).mp (h x hx)
    have : has (joinAll acl s.log logs).entries x = true :=
      (has_iff _ _).mpr ⟨y, joinAll_mono acl logs s.log y hy, hyx⟩
    show ¬ ((!has (joinAll acl s.log logs).entries x) = true)
    simp [this]
  show ({ (s.loadEnd0 acl logs) with remoteHeads := some ((sortedHeads (s.loadEnd0 acl logs).log).map (·.hash) ++ keptHeads s.remoteHeads (s.loadEnd0 acl logs).log) } : Store) = s.loadEnd0 acl logs
  rw [hk, List.append_nil]
  rfl

theorem loadEnd_good {acl : Acl} {U : List Entry} (hU : HashDet U) (hM : ClockMono U) {s : Store}
    {logs : List (OMap × OMap)} (hG : Good U s.log) (hB : BatchHonest U s.log.id logs) :
    Good U (s.loadEnd acl logs).log ∧ (s.loadEnd acl logs).log.id = s.log.id := by
  rw [loadEnd_log]
  exact ⟨joinAll_good hU hM hG hB, joinAll_id hU hM hG hB⟩

/-- **Every `replicationLoadComplete` establishes `StoreCovers`**, also when some logs of the batch
were rejected: the new `_remoteHeads` are all the heads of the merged log. (No assumption on the
cache before, none on the outcome of the joins.) -/
theorem loadEnd_covers {acl : Acl} {U : List Entry} (hU : HashDet U) (hM : ClockMono U) {s : Store}
    {logs : List (OMap × OMap)} (hG : Good U s.log) (hB : BatchHonest U s.log.id logs) :
    StoreCovers (s.loadEnd acl logs) := by
  unfold StoreCovers Store.cachedHeads
  rw [(loadEnd_heads acl s logs).2]
  simp only [Option.getD_some]
  exact (sortedHeads_cover hM (loadEnd_good hU hM hG hB).1.inv).mono_heads
    (fun x hx => List.mem_append_right _ (List.mem_append_left _ hx))

end Orbit
