import OrbitModel.Proofs.JoinClosed
/-!
# `replicationLoadComplete` on a batch of single-entry logs   (C05)

The replicator (after the `fix:` commits) buffers one log per fetched entry, in completion order:
a child may come before its parent, and in a different log. Each log is then accepted or skipped on
its own, so the merged log is exactly the old entries plus the *acceptable* entries of the batch
(`joinAll_singles`). It is closed under `next` iff the batch is parent-closed *among acceptable
entries* (`BatchParentsAcc`): an accepted child whose parent is rejected keeps a dangling link
(`CrashExample.rejected_parent_merged`). Every reported entry is in the log.
-/
namespace Orbit

/-- one log per fetched entry -/
def Singles (logs : List (OMap × OMap)) : Prop := ∀ p ∈ logs, ∃ e, p = ([e], [e])

/-- the batch is parent-closed among acceptable entries: each `next` link of an acceptable entry of
the batch names an entry held before the joins or an acceptable entry of the batch (any log) -/
def BatchParentsAcc (acl : Acl) (L : Log) (logs : List (OMap × OMap)) : Prop :=
  ∀ p ∈ logs, ∀ e ∈ p.1, acceptable acl.canAppend e = true → ∀ n ∈ e.next,
    has L.entries n = true ∨
    ∃ q ∈ logs, ∃ y ∈ q.1, y.hash = n ∧ acceptable acl.canAppend y = true

/-- a log all of whose entries are acceptable is never rejected -/
theorem join_ok_of_acceptable {canAppend : Entry → Bool} (L : Log) (A headsA : OMap)
    (h : ∀ x ∈ A, acceptable canAppend x = true) :
    ∃ L', join canAppend L A headsA L.id = .ok L' := by
  have hall : (difference A headsA L).all (acceptable canAppend) = true :=
    List.all_eq_true.mpr (fun x hx => h x (difference_item A headsA L x hx).1)
  unfold join joinChecked
  simp only [bne_self_eq_false, Bool.false_eq_true, if_false, hall, if_true, Except.map]
  exact ⟨_, rfl⟩

/-- one accepted single-entry log: the entries afterwards -/
theorem join_single_entries {U : List Entry} (hU : HashDet U) {canAppend : Entry → Bool}
    {L L' : Log} {e : Entry} (hI : Inv U L) (hA : Honest U [e] [e]) (hid : ∀ x ∈ [e], x.logId = L.id)
    (hj : join canAppend L [e] [e] L.id = .ok L') :
    ∀ x, x ∈ L'.entries ↔ x ∈ L.entries ∨ (x = e ∧ acceptable canAppend e = true) := by
  have hent := join_entries hU hI hA rfl hj
  intro x
  rw [hent x]
  constructor
  · rintro (h | h)
    · exact Or.inl h
    · have hx : x = e := List.mem_singleton.mp (difference_item [e] [e] L x h).1
      rcases join_ok_cases hj with ⟨hne, _⟩ | ⟨_, hall, _⟩
      · exact absurd rfl hne
      · exact Or.inr ⟨hx, hx ▸ List.all_eq_true.mp hall x h⟩
  · rintro (h | ⟨rfl, _⟩)
    · exact Or.inl h
    · exact heads_complete hU L [x] [x] hA hI.sub hid x List.mem_cons_self

/-- **the merged log is the old log plus the acceptable entries of the batch** -/
theorem joinAll_singles {acl : Acl} {U : List Entry} (hU : HashDet U) (hM : ClockMono U) :
    ∀ (logs : List (OMap × OMap)) (L : Log), Good U L → BatchHonest U L.id logs → Singles logs →
      ∀ x, x ∈ (joinAll acl L logs).entries ↔
        x ∈ L.entries ∨ ∃ p ∈ logs, x ∈ p.1 ∧ acceptable acl.canAppend x = true := by
  intro logs
  induction logs with
  | nil => intro L _ _ _ x; simp [joinAll]
  | cons q rest ih =>
    intro L hG hB hS x
    obtain ⟨e, rfl⟩ := hS q List.mem_cons_self
    have hBr : BatchHonest U L.id rest := fun q hq => hB q (List.mem_cons_of_mem _ hq)
    have hSr : Singles rest := fun q hq => hS q (List.mem_cons_of_mem _ hq)
    have hsplit : (∃ p ∈ ([e], [e]) :: rest, x ∈ p.1 ∧ acceptable acl.canAppend x = true) ↔
        (x = e ∧ acceptable acl.canAppend e = true) ∨
          ∃ p ∈ rest, x ∈ p.1 ∧ acceptable acl.canAppend x = true := by
      constructor
      · rintro ⟨p, hp, hx, hacc⟩
        rcases List.mem_cons.mp hp with rfl | hp
        · have : x = e := List.mem_singleton.mp hx
          exact Or.inl ⟨this, this ▸ hacc⟩
        · exact Or.inr ⟨p, hp, hx, hacc⟩
      · rintro (⟨rfl, hacc⟩ | ⟨p, hp, h⟩)
        · exact ⟨_, List.mem_cons_self, List.mem_singleton.mpr rfl, hacc⟩
        · exact ⟨p, List.mem_cons_of_mem _ hp, h⟩
    rw [joinAll_cons, hsplit]
    cases hj : join acl.canAppend L [e] [e] L.id with
    | error _ =>
      simp only
      rw [ih L hG hBr hSr x]
      constructor
      · rintro (h | h)
        · exact Or.inl h
        · exact Or.inr (Or.inr h)
      · rintro (h | ⟨_, hacc⟩ | h)
        · exact Or.inl h
        · obtain ⟨L', hok⟩ := join_ok_of_acceptable (canAppend := acl.canAppend) L [e] [e]
            (fun y hy => (List.mem_singleton.mp hy) ▸ hacc)
          rw [hok] at hj; cases hj
        · exact Or.inr h
    | ok L' =>
      simp only
      obtain ⟨hA, hid⟩ := hB ([e], [e]) List.mem_cons_self
      have hG' : Good U L' := good_step hU hM hG (.join L L' [e] [e] L.id hA hid hj)
      have hid' : L'.id = L.id := join_id hj
      rw [ih L' hG' (hid' ▸ hBr) hSr x, join_single_entries hU hG.inv hA hid hj x, or_assoc]

/-- closed under `next` when the batch is parent-closed among acceptable entries; every reported
entry is in the log -/
theorem joinAll_singles_closed {acl : Acl} {U : List Entry} (hU : HashDet U) (hM : ClockMono U)
    {logs : List (OMap × OMap)} {L : Log} (hG : Good U L) (hC : Closed L)
    (hB : BatchHonest U L.id logs) (hS : Singles logs) (hP : BatchParentsAcc acl L logs) :
    Closed (joinAll acl L logs) := by
  have hent := joinAll_singles (acl := acl) hU hM logs L hG hB hS
  have hsub := joinAll_mono acl logs L
  intro x hx n hn
  rcases (hent x).mp hx with hL | ⟨p, hp, hxp, hacc⟩
  · exact has_mono hsub (hC x hL n hn)
  · rcases hP p hp x hxp hacc n hn with h | ⟨q, hq, y, hy, hyn, hyacc⟩
    · exact has_mono hsub h
    · exact (has_iff _ _).mpr ⟨y, (hent y).mpr (Or.inr ⟨q, hq, hy, hyacc⟩), hyn⟩

theorem joinedEntries_singles {acl : Acl} {U : List Entry} (hU : HashDet U) (hM : ClockMono U) :
    ∀ (logs : List (OMap × OMap)) (L : Log), Good U L → BatchHonest U L.id logs → Singles logs →
      ∀ x ∈ joinedEntries acl L logs, x ∈ (joinAll acl L logs).entries := by
  intro logs
  induction logs with
  | nil => intro L _ _ _ x hx; cases hx
  | cons q rest ih =>
    intro L hG hB hS x hx
    obtain ⟨e, rfl⟩ := hS q List.mem_cons_self
    have hBr : BatchHonest U L.id rest := fun q hq => hB q (List.mem_cons_of_mem _ hq)
    have hSr : Singles rest := fun q hq => hS q (List.mem_cons_of_mem _ hq)
    rw [joinedEntries_cons] at hx
    rw [joinAll_cons]
    cases hj : join acl.canAppend L [e] [e] L.id with
    | error _ => rw [hj] at hx; exact ih L hG hBr hSr x hx
    | ok L' =>
      rw [hj] at hx
      obtain ⟨hA, hid⟩ := hB ([e], [e]) List.mem_cons_self
      have hG' : Good U L' := good_step hU hM hG (.join L L' [e] [e] L.id hA hid hj)
      have hid' : L'.id = L.id := join_id hj
      rcases List.mem_append.mp hx with h | h
      · have hxe : x = e := List.mem_singleton.mp h
        have : x ∈ L'.entries := (join_entries hU hG.inv hA rfl hj x).mpr
          (hxe ▸ heads_complete hU L [e] [e] hA hG.inv.sub hid e List.mem_cons_self)
        exact joinAll_mono acl rest L' x this
      · exact ih L' hG' (hid' ▸ hBr) hSr x h

end Orbit
