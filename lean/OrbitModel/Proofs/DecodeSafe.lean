import OrbitModel.Model.Decode
/-!
# `Sync` on decoded heads never dereferences nil   (C12, decode part)
-/
namespace Orbit

/-! ## the repaired `Sync` never panics -/

/-- the repaired pre-check loop either refuses the message or hands a list to the replicator -/
theorem syncHeads0_load_or_err (acl : Acl) (hs : List RawHead) (acc : List Entry) :
    (∃ es, syncHeads0 acl hs acc = .load es) ∨ syncHeads0 acl hs acc = .err := by
  induction hs generalizing acc with
  | nil => exact .inl ⟨_, rfl⟩
  | cons h hs ih =>
    unfold syncHeads0
    split
    · exact ih acc
    · split
      · exact ih _
      · split
        · exact .inr rfl
        · exact ih _

/-- **C1.** -/
theorem syncHeads0_never_panics (acl : Acl) (hs : List RawHead) (acc : List Entry) :
    syncHeads0 acl hs acc ≠ .panic := by
  rcases syncHeads0_load_or_err acl hs acc with ⟨es, h⟩ | h <;> rw [h] <;> simp

theorem handleMessage_load_or_err (acl : Acl) (m : Decoded) :
    (∃ es, handleMessage acl m = .load es) ∨ handleMessage acl m = .err := by
  unfold handleMessage
  split
  · exact .inl ⟨_, rfl⟩
  · exact .inl ⟨_, rfl⟩
  · exact syncHeads0_load_or_err acl _ []

theorem handleMessage_never_panics (acl : Acl) (m : Decoded) : handleMessage acl m ≠ .panic := by
  rcases handleMessage_load_or_err acl m with ⟨es, h⟩ | h <;> rw [h] <;> simp

/-! ## what is handed to the replicator -/

/-- a head is handed to the replicator iff it is complete and the access controller admits it -/
def RawHead.loadable0 (acl : Acl) (h : RawHead) : Bool := h.complete && acl.canAppend h.entry

/-- what a successful pre-check hands over is exactly: the accumulator so far, then the entries
of the complete, admitted heads, in message order -/
theorem syncHeads0_load_eq (acl : Acl) (hs : List RawHead) (acc es : List Entry)
    (h : syncHeads0 acl hs acc = .load es) :
    es = acc.reverse ++ (hs.filter (RawHead.loadable0 acl)).map RawHead.entry := by
  induction hs generalizing acc with
  | nil => simp only [syncHeads0] at h; injection h with h; simp [h]
  | cons x hs ih =>
    unfold syncHeads0 at h
    by_cases hc : x.complete
    · simp only [hc, Bool.not_true, Bool.false_eq_true, if_false] at h
      by_cases ha : acl.canAppend x.entry
      · simp only [ha, Bool.not_true, Bool.false_eq_true, if_false] at h
        split at h
        · cases h
        · have step := ih _ h
          simp [step, RawHead.loadable0, hc, ha]
      · simp only [ha, Bool.not_false, if_true] at h
        simp [ih _ h, RawHead.loadable0, hc, ha]
    · simp only [hc, Bool.not_false, if_true] at h
      simp [ih _ h, RawHead.loadable0, hc]

/-- **C2.** (equality form) starting from nothing, the heads loaded are exactly the entries of the
complete heads of the message that the access controller admits, in order; null heads, heads missing
identity / clock / hash and refused heads are never handed over -/
theorem syncHeads0_loads_exactly_loadable (acl : Acl) (hs : List RawHead) (es : List Entry)
    (h : syncHeads0 acl hs [] = .load es) :
    es = (hs.filter (RawHead.loadable0 acl)).map RawHead.entry := by
  simpa using syncHeads0_load_eq acl hs [] es h

/-- **C2.** -/
theorem syncHeads0_loads_only_complete (acl : Acl) (hs : List RawHead) (es : List Entry)
    (h : syncHeads0 acl hs [] = .load es) :
    es.Sublist ((hs.filter RawHead.complete).map RawHead.entry) ∧
    ∀ e ∈ es, ∃ r ∈ hs, r.complete = true ∧ acl.canAppend r.entry = true ∧ r.entry = e := by
  have heq := syncHeads0_loads_exactly_loadable acl hs es h
  subst heq
  refine ⟨?_, ?_⟩
  · have hf : hs.filter (RawHead.loadable0 acl) =
        (hs.filter RawHead.complete).filter (fun r => acl.canAppend r.entry) := by
      rw [List.filter_filter]; congr 1; funext r; simp [RawHead.loadable0, Bool.and_comm]
    rw [hf]
    exact List.filter_sublist.map _
  · intro e he
    simp only [List.mem_map, List.mem_filter, RawHead.loadable0, Bool.and_eq_true] at he
    obtain ⟨r, ⟨hr, hc, ha⟩, rfl⟩ := he
    exact ⟨r, hr, hc, ha, rfl⟩

/-- Refutation witness for the tree before the last repair (finding F18): a complete head that the
access controller refuses was still handed to the replicator -/
theorem refused_head_was_loaded (e : Entry) :
    syncHeadsLoadsRefused {} [{ entry := e }] [] = .load [e] ∧ syncHeads0 {} [{ entry := e }] [] = .load [] := by
  constructor <;> simp [syncHeadsLoadsRefused, syncHeads0, RawHead.complete, Acl.canAppend]

/-- **C3.** (any accumulator) -/
theorem syncHeads0_hash_acc (acl : Acl) (hs : List RawHead) (acc es : List Entry)
    (h : syncHeads0 acl hs acc = .load es) :
    ∀ r ∈ hs, r.complete = true → acl.canAppend r.entry = true → r.entry.hashOk = true := by
  induction hs generalizing acc with
  | nil => intro r hr; cases hr
  | cons x hs ih =>
    intro r hr hc hca
    unfold syncHeads0 at h
    rcases List.mem_cons.1 hr with rfl | hr
    · simp only [hc, hca, Bool.not_true, Bool.false_eq_true, if_false] at h
      split at h
      · cases h
      · simpa using ‹¬ (!r.entry.hashOk) = true›
    · split at h
      · exact ih _ h r hr hc hca
      · split at h
        · exact ih _ h r hr hc hca
        · split at h
          · cases h
          · exact ih _ h r hr hc hca

/-- **C3.** a message is only loaded if every complete head that the access controller admits
carries a hash matching its content -/
theorem syncHeads0_hash (acl : Acl) (hs : List RawHead) (es : List Entry)
    (h : syncHeads0 acl hs [] = .load es) :
    ∀ r ∈ hs, r.complete = true → acl.canAppend r.entry = true → r.entry.hashOk = true :=
  syncHeads0_hash_acc acl hs [] es h

/-- conversely a complete, admitted head with a wrong hash refuses the whole message -/
theorem syncHeads0_err_of_bad_hash (acl : Acl) (hs : List RawHead) (acc : List Entry) (r : RawHead)
    (hr : r ∈ hs) (hc : r.complete = true) (hca : acl.canAppend r.entry = true)
    (hbad : r.entry.hashOk = false) : syncHeads0 acl hs acc = .err := by
  rcases syncHeads0_load_or_err acl hs acc with ⟨es, h⟩ | h
  · have := syncHeads0_hash_acc acl hs acc es h r hr hc hca
    rw [hbad] at this; cases this
  · exact h

/-! ## the pinned `Sync` -/

/-- **C4.** a JSON `null` among the heads: `GetNext` on a typed nil pointer -/
theorem syncPinned_null_panics (acl : Acl) : syncPinned acl [{ isNull := true }] [] = .panic := by
  simp [syncPinned]

/-- a head without identity: `CanAppend` dereferences it -/
theorem syncPinned_noidentity_panics (acl : Acl) :
    syncPinned acl [{ hasIdentity := false }] [] = .panic := by
  simp [syncPinned]

/-- a null head anywhere after heads that pass makes the pinned `Sync` panic -/
theorem syncPinned_null_panics_later (acl : Acl) (e : Entry) (hca : acl.canAppendPinned e = false) :
    syncPinned acl [{ entry := e }, { isNull := true }] [] = .panic := by
  simp [syncPinned, hca]

/-- an admitted head without a clock: the encoder dereferences it -/
theorem syncPinned_noclock_panics (acl : Acl) (e : Entry) (hca : acl.canAppendPinned e = true) :
    syncPinned acl [{ hasClock := false, entry := e }] [] = .panic := by
  simp [syncPinned, hca]

/-- on messages whose heads are all complete, the pinned `Sync` and the one after its first repair
differ only through the access-controller check -/
theorem syncPinned_agrees_on_complete (acl : Acl) (hs : List RawHead) (acc : List Entry)
    (hc : ∀ r ∈ hs, r.complete = true)
    (hca : ∀ r ∈ hs, acl.canAppendPinned r.entry = acl.canAppend r.entry) :
    syncPinned acl hs acc = syncHeadsLoadsRefused acl hs acc := by
  induction hs generalizing acc with
  | nil => rfl
  | cons x hs ih =>
    have hx := hc x (List.mem_cons_self ..)
    have hax := hca x (List.mem_cons_self ..)
    have ih' := fun acc => ih acc (fun r hr => hc r (List.mem_cons_of_mem _ hr))
      (fun r hr => hca r (List.mem_cons_of_mem _ hr))
    unfold RawHead.complete at hx
    simp only [Bool.and_eq_true, Bool.not_eq_true'] at hx
    obtain ⟨⟨⟨h1, h2⟩, h3⟩, h4⟩ := hx
    unfold syncPinned syncHeadsLoadsRefused
    simp only [RawHead.complete, h1, h2, h3, h4, hax, ih', Bool.not_true, Bool.not_false,
      Bool.and_self, Bool.or_false, Bool.false_eq_true, if_false]

/-! ## the store's own log id -/

/-- a head is handed to the replicator iff it is complete, was written for this log, and the access
controller admits it -/
def RawHead.loadable (acl : Acl) (id : Nat) (h : RawHead) : Bool :=
  h.complete && (h.entry.logId == id && h.entry.sigOk) && acl.canAppend h.entry

theorem filter_ownLog_loadable0 (acl : Acl) (id : Nat) (hs : List RawHead) :
    (hs.filter (ownLog id)).filter (RawHead.loadable0 acl) = hs.filter (RawHead.loadable acl id) := by
  rw [List.filter_filter]
  congr 1
  funext h
  unfold RawHead.loadable0 RawHead.loadable ownLog
  cases h.complete <;> cases (h.entry.logId == id) <;> cases h.entry.sigOk <;> cases acl.canAppend h.entry <;> rfl

/-- **what `Sync` hands to the replicator** (equality form): exactly the entries of the complete
heads of the message that were written for this log and that the access controller admits, in order -/
theorem syncHeads_loads_exactly_loadable (acl : Acl) (id : Nat) (hs : List RawHead) (es : List Entry)
    (h : syncHeads acl id hs [] = .load es) :
    es = (hs.filter (RawHead.loadable acl id)).map RawHead.entry := by
  unfold syncHeads at h
  rw [syncHeads0_loads_exactly_loadable acl _ es h, filter_ownLog_loadable0]

theorem syncHeads_loads_only_own_admitted (acl : Acl) (id : Nat) (hs : List RawHead) (es : List Entry)
    (h : syncHeads acl id hs [] = .load es) :
    ∀ e ∈ es, ∃ r ∈ hs, r.complete = true ∧ r.entry.logId = id ∧ r.entry.sigOk = true ∧
      acl.canAppend r.entry = true ∧ r.entry = e := by
  have heq := syncHeads_loads_exactly_loadable acl id hs es h
  subst heq
  intro e he
  simp only [List.mem_map, List.mem_filter, RawHead.loadable, Bool.and_eq_true, beq_iff_eq] at he
  obtain ⟨r, ⟨hr, ⟨hc, hl, hs'⟩, ha⟩, rfl⟩ := he
  exact ⟨r, hr, hc, hl, hs', ha, rfl⟩

theorem syncHeads_never_panics (acl : Acl) (id : Nat) (hs : List RawHead) (acc : List Entry) :
    syncHeads acl id hs acc ≠ .panic := syncHeads0_never_panics acl _ acc

/-- Refutation witness for the tree before the repair of finding F21: a complete head written for
ANOTHER log by a permitted writer was handed to the replicator (which counted it in the replication
status before dropping it) -/
theorem foreign_head_was_loaded (e : Entry) (h : e.logId = 2) (hk : e.key = e.ident) (hi : e.identOk = true)
    (hh : e.hashOk = true) :
    syncHeadsLoadsForeign { wildcard := true } [{ entry := e }] [] = .load [e] ∧
    syncHeads { wildcard := true } 1 [{ entry := e }] [] = .load [] := by
  constructor
  · simp [syncHeadsLoadsForeign, syncHeads0, RawHead.complete, Acl.canAppend, hk, hi, hh]
  · simp [syncHeads, ownLog, RawHead.complete, h, syncHeads0]

/-- Refutation witness for the tree before the repair of finding F22: a complete head that names a
writer (anybody can copy a writer's identity block) but is not signed by it passed `Sync` and was
handed to the replicator, which fetched whatever it pointed to -/
theorem badly_signed_head_was_loaded (e : Entry) (h : e.logId = 1) (hk : e.key = e.ident) (hi : e.identOk = true)
    (hh : e.hashOk = true) (hs : e.sigOk = false) :
    syncHeads0 { wildcard := true } [{ entry := e }] [] = .load [e] ∧
    syncHeads { wildcard := true } 1 [{ entry := e }] [] = .load [] := by
  constructor
  · simp [syncHeads0, RawHead.complete, Acl.canAppend, hk, hi, hh]
  · simp [syncHeads, ownLog, RawHead.complete, h, hs, syncHeads0]

/-! ## the listener carries no state between messages -/

/-- **C5.** the listener handles each message by a pure function of that message: whatever
(malformed or refused) messages came before, the last message gets the outcome it would get alone -/
theorem later_messages_handled (acl : Acl) (ms : List Decoded) (m : Decoded) :
    ((ms ++ [m]).map (handleMessage acl)).getLast? = some (handleMessage acl m) := by
  simp

/-- and so does every message in the middle of the stream -/
theorem each_message_handled_alone (acl : Acl) (pre post : List Decoded) (m : Decoded) :
    ((pre ++ m :: post).map (handleMessage acl))[pre.length]? = some (handleMessage acl m) := by
  simp

/-- no iteration of the listener panics, whatever the stream -/
theorem listener_never_panics (acl : Acl) (ms : List Decoded) :
    ∀ o ∈ ms.map (handleMessage acl), o ≠ .panic := by
  intro o ho
  obtain ⟨m, _, rfl⟩ := List.mem_map.1 ho
  exact handleMessage_never_panics acl m

/-- a listener loop that does not leave on an error handles every message of the stream -/
theorem runListener_handles_all (acl : Acl) (ms : List Decoded) :
    runListener false acl ms = ms.map (handleMessage acl) := by
  induction ms with
  | nil => rfl
  | cons m ms ih =>
    unfold runListener
    cases h : handleMessage acl m <;> simp [ih, h]

/-- one that leaves on an error stops handling at the first refused message -/
theorem runListener_stopping_drops_later (acl : Acl) (m : Decoded) (ms : List Decoded)
    (h : handleMessage acl m = .err) : runListener true acl (m :: ms) = [.err] := by
  unfold runListener; rw [h]; rfl

/-! ## non-vacuity -/

section Examples

private def e1 : Entry := { hash := 1, logId := 1, time := 1, cid := 0, next := [], ident := 7, key := 7 }
private def e2 : Entry := { hash := 2, logId := 1, time := 2, cid := 0, next := [1], ident := 7, key := 7 }
private def eBad : Entry := { e2 with hashOk := false }
private def acl7 : Acl := { ids := [7] }

private def isLoad (o : SyncOutcome) (hs : List Nat) : Bool :=
  match o with | .load es => es.map (·.hash) == hs | _ => false
private def isErr : SyncOutcome → Bool | .err => true | _ => false
private def isPanic : SyncOutcome → Bool | .panic => true | _ => false

-- null and incomplete heads are skipped; the complete ones are loaded in order
example : isLoad (syncHeads0 acl7 [{ isNull := true }, { entry := e1 }, { hasClock := false }, { entry := e2 }] [])
    [1, 2] = true := by decide
-- a bad hash on an admitted head refuses the message
example : isErr (syncHeads0 acl7 [{ entry := e1 }, { entry := eBad }] []) = true := by decide
-- the pinned tree panics on the same null head
example : isPanic (syncPinned acl7 [{ entry := e1 }, { isNull := true }] []) = true := by decide
example : isLoad (syncPinned acl7 [{ entry := e1 }, { entry := e2 }] []) [1, 2] = true := by decide
-- a valid message after garbage is handled as if alone
example : ([Decoded.undecodable, .heads [{ isNull := true }], .heads [{ entry := e1 }]].map
    (fun m => isLoad (handleMessage acl7 m) [1])) = [false, false, true] := by decide

end Examples

end Orbit
