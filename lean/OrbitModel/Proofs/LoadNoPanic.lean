import OrbitModel.Proofs.LoadLimit
/-!
# `Load` of one head never panics on a closed log (a fresh store), or once `amount` entries are held  (C15)
-/
namespace Orbit

/-- the log `NewFromEntryHash` builds over the fetched entries -/
structure Fetched (U : List Entry) (L : Log) (F : List Entry) : Prop where
  sub : ∀ e ∈ F, e ∈ U
  lid : ∀ e ∈ F, e.logId = L.id

theorem fetched_honest {U : List Entry} {L : Log} {F : List Entry} (hF : Fetched U L F) :
    Honest U (ofList F) (ofList (findHeads (ofList F))) :=
  ⟨fun e he => hF.sub e (mem_of_mem_ofList he),
   fun e he => ((mem_findHeads _ e).mp (mem_of_mem_ofList he)).1⟩

theorem fetched_lid {U : List Entry} {L : Log} {F : List Entry} (hF : Fetched U L F) :
    ∀ e ∈ ofList F, e.logId = L.id := fun e he => hF.lid e (mem_of_mem_ofList he)

/-- the heads `FindHeads` computes cover the fetched log -/
theorem fetched_covered {U : List Entry} (hU : HashDet U) (hM : ClockMono U) {L : Log} {F : List Entry}
    (hF : Fetched U L F) :
    CoveredBy (asLog (ofList F)) ((ofList (findHeads (ofList F))).map (·.hash)) := by
  have hI := inv_of_findHeads hU L.id F 0 hF.sub
  exact (heads_cover_inv hM hI).of_entries_eq rfl

/-- the merged log after the checks of `Join` -/
theorem fetched_joinCore {U : List Entry} (hU : HashDet U) {L : Log} {F : List Entry} (hG : Good U L)
    (hF : Fetched U L F) :
    Inv U (joinCore L (ofList F) (ofList (findHeads (ofList F))) L.id) ∧
    (joinCore L (ofList F) (ofList (findHeads (ofList F))) L.id).entries.Nodup :=
  ⟨inv_joinCore_honest hU L _ _ L.id hG.inv (fetched_honest hF) (fetched_lid hF),
   nodup_joinCore L _ _ L.id hG.nodup⟩

/-- inside the incoming log, below a held entry of a closed log everything is held; so a path to an
entry not held runs through new items only -/
theorem difference_desc_closed {U : List Entry} (hU : HashDet U) (L : Log) (A headsA : OMap)
    (hAU : ∀ e ∈ A, e ∈ U) (hLU : ∀ e ∈ L.entries, e ∈ U) (hid : ∀ e ∈ A, e.logId = L.id)
    (hC : Closed L) {a b : Nat} (d : Desc (asLog A) a b) :
    has L.entries b = false → (∃ y ∈ difference A headsA L, y.hash = a) →
      ∃ y ∈ difference A headsA L, y.hash = b := by
  induction d with
  | refl _ => exact fun _ h => h
  | @step p c x hp hc hn d ih =>
    rintro hb ⟨y, hy, hyh⟩
    have hp' : p ∈ A := hp
    have hc' : c ∈ A := hc
    have hch : has L.entries c.hash = false := by
      cases hh : has L.entries c.hash
      · rfl
      · rw [desc_in_closed hU hLU hAU hC d hh] at hb; cases hb
    apply ih hb
    have hyA : y ∈ A := (difference_item A headsA L y hy).1
    have hyp : y = p := hU y (hAU y hyA) p (hAU p hp') hyh
    subst hyp
    rcases difference_closed A headsA L y hy c.hash hn with h | h
    · rw [hch] at h; cases h
    · exact h ⟨c, get_of_mem hU hAU hc', hch, hid c hc'⟩

/-- **on a closed log every fetched entry not yet held is merged** -/
theorem difference_nonheld {U : List Entry} (hU : HashDet U) (L : Log) (A headsA : OMap)
    (hA : Honest U A headsA) (hLU : ∀ e ∈ L.entries, e ∈ U) (hid : ∀ e ∈ A, e.logId = L.id)
    (hC : Closed L) (hcov : CoveredBy (asLog A) (headsA.map (·.hash))) :
    ∀ e ∈ A, has L.entries e.hash = false → e ∈ difference A headsA L := by
  intro e he hne
  obtain ⟨h, hh, d⟩ := hcov e he
  obtain ⟨x, hx, rfl⟩ := List.mem_map.mp hh
  have hxD : x ∈ difference A headsA L := by
    rcases heads_complete hU L A headsA hA hLU hid x hx with h | h
    · have : has L.entries x.hash = true := (has_iff _ _).mpr ⟨x, h, rfl⟩
      rw [desc_in_closed hU hLU hA.sub hC d this] at hne; cases hne
    · exact h
  obtain ⟨y, hy, hye⟩ := difference_desc_closed hU L A headsA hA.sub hLU hid hC d hne ⟨x, hxD, rfl⟩
  have hyA : y ∈ A := (difference_item A headsA L y hy).1
  exact (hU y (hA.sub y hyA) e (hA.sub e he) hye) ▸ hy

/-- old entries followed by the fetched entries not held: no duplicates -/
theorem nodup_old_new {L : Log} (hnd : L.entries.Nodup) (m : OMap) (hm : m.Nodup) :
    (L.entries ++ m.filter (fun e => !has L.entries e.hash)).Nodup := by
  apply List.nodup_append.mpr
  refine ⟨hnd, hm.filter _, ?_⟩
  intro a ha b hb hab
  subst hab
  have := (List.mem_filter.mp hb).2
  simp only [Bool.not_eq_true', has_false_iff] at this
  exact this a ha rfl

/-- 3. **`Load` of one head does not panic**, whatever the amount, when the log is closed under
`next` (in particular a fresh store) or already holds `amount` entries -/
theorem loadHead0_no_panic {U : List Entry} (hU : HashDet U) (hT : TieFree U) (hM : ClockMono U)
    (acl : Acl) (fetch : Nat → OMap) (amount : Int) {L : Log} (h : Nat) (hG : Good U L)
    (hF : Fetched U L (fetch h)) (hC : Closed L ∨ amount ≤ L.entries.length) :
    loadHead0 acl fetch amount L h ≠ .error .panic := by
  intro hp
  obtain ⟨_, hsz, hgt⟩ := (loadHead0_panic_iff acl fetch amount L h).mp hp
  obtain ⟨hI1, hnd1⟩ := fetched_joinCore hU hG hF
  rw [values_length hU hT hM _ hI1 hnd1] at hgt
  have hA := fetched_honest hF
  have hlid := fetched_lid hF
  generalize hm : ofList (fetch h) = m at *
  have hmnd : m.Nodup := hm ▸ ofList_nodup _
  rw [joinCore_eq L _ _ L.id rfl] at hgt
  simp only at hgt
  -- the size is the amount, and it is smaller than the count of the clamp
  unfold loadSize at hsz hgt
  simp only at hsz hgt
  have hold : L.entries.length ≤ (merge L.entries (difference m (ofList (findHeads m)) L)).length :=
    List.Nodup.length_le_of_subset hG.nodup (fun e he => mem_merge_of_left _ _ e he)
  split at hsz
  · omega
  · rename_i hcond
    rw [if_neg hcond] at hgt
    simp only [Bool.and_eq_true, decide_eq_true_eq, not_and] at hcond
    rcases hC with hC | hC
    · have hcov : CoveredBy (asLog m) ((ofList (findHeads m)).map (·.hash)) :=
        hm ▸ fetched_covered hU hM hF
      have hsub : ∀ e ∈ L.entries ++ m.filter (fun e => !has L.entries e.hash),
          e ∈ merge L.entries (difference m (ofList (findHeads m)) L) := by
        intro e he
        rcases List.mem_append.mp he with he | he
        · exact mem_merge_of_left _ _ e he
        · obtain ⟨hem, hne⟩ := List.mem_filter.mp he
          simp only [Bool.not_eq_true'] at hne
          have hd := difference_nonheld hU L m _ hA hG.inv.sub hlid hC hcov e hem hne
          exact mem_merge_of_right hU _ _ hG.inv.sub
            (fun x hx => hA.sub x (difference_item _ _ _ x hx).1) e hd
      have hlen := List.Nodup.length_le_of_subset (nodup_old_new hG.nodup m hmnd) hsub
      rw [List.length_append] at hlen
      have := hcond hsz
      omega
    · omega

end Orbit
