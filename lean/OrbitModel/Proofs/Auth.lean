import OrbitModel.Proofs.Members
import OrbitModel.Model.Store
/-!
# C03 / C04: only authorised, verified entries of this log ever become members or visible

The reachability relation `AStep` is *adversarial*: it makes no assumption on clocks or ties
(`TieFree`, `ClockMono` are not assumed), so an authorised writer may forge any Lamport time, and a
peer may send any log whatsoever whose entries are blocks of the universe (content-addressed) that
carry our log id (what the repaired replicator lets through).  Entries with a bad signature, a key
that is not the named identity's, a forged identity block, or an author outside the write list may
all be present in what the peer sends.
-/
namespace Orbit

/-- one operation on a replica's log in the presence of an adversary -/
inductive AStep (ca : Entry → Bool) (U : List Entry) : Log → Log → Prop
  /-- `Append` allowed by the access controller.  The entry is created and signed locally: it
  verifies, is correctly addressed, carries this log's id and the links handed to `mk`.  Content
  addressing: its hash is new, and no entry already held can link to a hash created later. -/
  | appendOk (L : Log) (mk : Nat → List Nat → Entry)
      (hmem : mk (appendTime L) (appendNext L) ∈ U)
      (hnext : (mk (appendTime L) (appendNext L)).next = appendNext L)
      (hfresh : has L.entries (mk (appendTime L) (appendNext L)).hash = false)
      (hunref : (mk (appendTime L) (appendNext L)).hash ∉ nexts L.entries)
      (hsig : (mk (appendTime L) (appendNext L)).sigOk = true)
      (hhash : (mk (appendTime L) (appendNext L)).hashOk = true)
      (hlog : (mk (appendTime L) (appendNext L)).logId = L.id)
      (hcan : ca (mk (appendTime L) (appendNext L)) = true) :
      AStep ca U L (append ca L mk).1
  /-- `Append` denied by the access controller -/
  | appendDenied (L : Log) (mk : Nat → List Nat → Entry)
      (hcan : ca (mk (appendTime L) (appendNext L)) = false) :
      AStep ca U L (append ca L mk).1
  /-- successful `Join` of a received log: any content, as long as its heads are among its entries
  and every entry carries our log id (the repaired replicator drops fetched logs containing an
  entry of another log) -/
  | joinOk (L L' : Log) (A headsA : OMap) (Aid : Nat)
      (hA : Honest U A headsA) (hid : ∀ e ∈ A, e.logId = L.id)
      (h : join ca L A headsA Aid = .ok L') :
      AStep ca U L L'
  /-- failed `Join` of anything at all: no new state -/
  | joinFail (L : Log) (A headsA : OMap) (Aid : Nat) (err : Err)
      (h : join ca L A headsA Aid = .error err) :
      AStep ca U L L

/-- logs reachable from the empty log of id `id` under adversarial steps -/
inductive AReachable (ca : Entry → Bool) (U : List Entry) (id : Nat) : Log → Prop
  | empty : AReachable ca U id (Log.empty id)
  | step {L L' : Log} : AReachable ca U id L → AStep ca U L L' → AReachable ca U id L'

/-- the membership invariant: every member passed the access controller, verifies, is ours -/
def Members (ca : Entry → Bool) (L : Log) : Prop :=
  ∀ e ∈ L.entries, ca e = true ∧ e.sigOk = true ∧ e.logId = L.id

/-- what every adversarially reachable log satisfies -/
structure AGood (ca : Entry → Bool) (U : List Entry) (L : Log) : Prop where
  inv     : Inv U L
  nodup   : L.entries.Nodup
  members : Members ca L

theorem agood_empty (ca : Entry → Bool) (U : List Entry) (id : Nat) : AGood ca U (Log.empty id) :=
  ⟨inv_empty U id, by simp [Log.empty], by intro e he; simp [Log.empty] at he⟩

theorem joinA_id {ca : Entry → Bool} {L L' : Log} {A headsA : OMap} {Aid : Nat}
    (h : join ca L A headsA Aid = .ok L') : L'.id = L.id := by
  rcases join_ok_cases h with ⟨_, rfl⟩ | ⟨hid, _, rfl⟩
  · rfl
  · rw [joinCore_eq L A headsA Aid hid]; rfl

theorem append_id (ca : Entry → Bool) (L : Log) (mk : Nat → List Nat → Entry) :
    (append ca L mk).1.id = L.id := by
  rw [append_eq]; split <;> rfl

theorem astep_id {ca : Entry → Bool} {U : List Entry} {L L' : Log} (hs : AStep ca U L L') :
    L'.id = L.id := by
  cases hs with
  | appendOk mk => exact append_id ca L mk
  | appendDenied mk _ => exact append_id ca L mk
  | joinOk _ A headsA Aid _ _ h => exact joinA_id h
  | joinFail => rfl

/-- a successful `join` of **any** log keeps the membership invariant -/
theorem members_join {ca : Entry → Bool} {L L' : Log} {A headsA : OMap} {Aid : Nat}
    (hM : Members ca L) (h : join ca L A headsA Aid = .ok L') : Members ca L' := by
  intro e he
  rw [joinA_id h]
  rcases join_new_acceptable h e he with h1 | ⟨h1, h2, h3, _⟩
  · exact hM e h1
  · exact ⟨h1, h2, h3⟩

theorem agood_step {ca : Entry → Bool} {U : List Entry} (hU : HashDet U) {L L' : Log}
    (hG : AGood ca U L) (hs : AStep ca U L L') : AGood ca U L' := by
  cases hs with
  | appendOk mk hmem hnext hfresh hunref hsig hhash hlog hcan =>
    refine ⟨inv_append ca L mk hG.inv hnext hmem hfresh hunref
        (by rw [hnext]; exact fresh_not_in_appendNext hG.inv hfresh),
      nodup_append ca L mk hG.nodup, ?_⟩
    intro x hx
    rw [append_id]
    rcases (append_entries ca L mk x).mp hx with hx | ⟨rfl, _, _⟩
    · exact hG.members x hx
    · exact ⟨hcan, hsig, hlog⟩
  | appendDenied mk hcan =>
    rw [append_eq, hcan]
    simp only [Bool.false_eq_true, if_false]
    exact ⟨⟨hG.inv.sub, hG.inv.heads, hG.inv.nidx, hG.inv.hnodup⟩, hG.nodup, hG.members⟩
  | joinOk _ A headsA Aid hA hid h =>
    exact ⟨inv_join_honest hU hG.inv hA hid h, nodup_join hG.nodup h, members_join hG.members h⟩
  | joinFail => exact hG

/-- **every adversarially reachable log satisfies the heads invariant, is duplicate-free, and all
its members passed the access controller, verify, and carry the log's id** -/
theorem areachable_good {ca : Entry → Bool} {U : List Entry} (hU : HashDet U) {id : Nat} {L : Log}
    (h : AReachable ca U id L) : AGood ca U L := by
  induction h with
  | empty => exact agood_empty ca U id
  | step _ hs ih => exact agood_step hU ih hs

theorem areachable_id {ca : Entry → Bool} {U : List Entry} {id : Nat} {L : Log}
    (h : AReachable ca U id L) : L.id = id := by
  induction h with
  | empty => rfl
  | step _ hs ih => rw [astep_id hs, ih]

theorem areachable_inv {ca : Entry → Bool} {U : List Entry} (hU : HashDet U) {id : Nat} {L : Log}
    (h : AReachable ca U id L) : Inv U L := (areachable_good hU h).inv

theorem areachable_nodup {ca : Entry → Bool} {U : List Entry} (hU : HashDet U) {id : Nat} {L : Log}
    (h : AReachable ca U id L) : L.entries.Nodup := (areachable_good hU h).nodup

theorem areachable_members {ca : Entry → Bool} {U : List Entry} (hU : HashDet U) {id : Nat}
    {L : Log} (h : AReachable ca U id L) :
    ∀ e ∈ L.entries, ca e = true ∧ e.sigOk = true ∧ e.logId = L.id := (areachable_good hU h).members

/-- the repaired `CanAppend` spelt out: the named identity is in the write list (or `*`), the entry
is signed with that identity's key, and the identity block is genuine -/
theorem canAppend_spec (acl : Acl) (e : Entry) :
    acl.canAppend e = true ↔
      ((acl.wildcard = true ∨ e.ident ∈ acl.ids) ∧ e.key = e.ident ∧ e.identOk = true) := by
  simp only [Acl.canAppend, Bool.and_eq_true, Bool.or_eq_true, List.contains_eq_mem,
    decide_eq_true_eq, beq_iff_eq]
  constructor
  · rintro ⟨⟨h1, h2⟩, h3⟩; exact ⟨h1, h2, h3⟩
  · rintro ⟨h1, h2, h3⟩; exact ⟨⟨h1, h2⟩, h3⟩

/-- **C03 (members).** Every member of a reachable log is authored by an identity of the write
list, signed with that identity's key, with a genuine identity block and a valid signature. -/
theorem C03_members_authorised {acl : Acl} {U : List Entry} (hU : HashDet U) {id : Nat} {L : Log}
    (h : AReachable acl.canAppend U id L) :
    ∀ x ∈ L.entries, (acl.wildcard = true ∨ x.ident ∈ acl.ids) ∧ x.key = x.ident ∧
      x.identOk = true ∧ x.sigOk = true ∧ x.logId = L.id := by
  intro x hx
  obtain ⟨h1, h2, h3⟩ := areachable_members hU h x hx
  obtain ⟨a, b, c⟩ := (canAppend_spec acl x).mp h1
  exact ⟨a, b, c, h2, h3⟩

/-- **C03 (visible state).** Everything `Values()` shows on a reachable log — whatever clocks an
attacker forged — is authored by an identity of the write list and signed with its key. -/
theorem C03_visible_authorised {acl : Acl} {U : List Entry} (hU : HashDet U) {id : Nat} {L : Log}
    (h : AReachable acl.canAppend U id L) :
    ∀ x ∈ values L, (acl.wildcard = true ∨ x.ident ∈ acl.ids) ∧ x.key = x.ident ∧
      x.identOk = true ∧ x.sigOk = true ∧ x.logId = L.id :=
  fun x hx => C03_members_authorised hU h x (values_subset_entries L (areachable_inv hU h) x hx)

/-- the same for any bounded traversal (`iterator`, `appendRefs`) -/
theorem C03_traverse_authorised {acl : Acl} {U : List Entry} (hU : HashDet U) {id : Nat} {L : Log}
    (h : AReachable acl.canAppend U id L) (n : Nat) :
    ∀ x ∈ traverseN L n, (acl.wildcard = true ∨ x.ident ∈ acl.ids) ∧ x.key = x.ident ∧
      x.identOk = true ∧ x.sigOk = true ∧ x.logId = L.id :=
  fun x hx => C03_members_authorised hU h x
    (traverseN_subset_entries L (areachable_inv hU h) n x hx)

/-- **C03 (contrapositive).** An entry whose author is not in the write list, or that is not signed
with the key of the identity it names, is in no reachable log and in no `Values()`. -/
theorem C03_unauthorised_absent {acl : Acl} {U : List Entry} (hU : HashDet U) {id : Nat} {L : Log}
    (h : AReachable acl.canAppend U id L) (x : Entry)
    (hbad : (acl.wildcard = false ∧ x.ident ∉ acl.ids) ∨ x.key ≠ x.ident ∨ x.identOk = false) :
    x ∉ L.entries ∧ x ∉ values L := by
  have key : x ∉ L.entries := by
    intro hx
    obtain ⟨h1, h2, h3, _⟩ := C03_members_authorised hU h x hx
    rcases hbad with ⟨hw, hn⟩ | hk | hi
    · rcases h1 with h1 | h1
      · rw [hw] at h1; exact Bool.noConfusion h1
      · exact hn h1
    · exact hk h2
    · rw [hi] at h3; exact Bool.noConfusion h3
  exact ⟨key, fun hx => key (values_subset_entries L (areachable_inv hU h) x hx)⟩

/-- **C03 (local write).** A denied local write returns `denied` and changes nothing but the
clock: same entries, heads, `Next` index, id — hence the same `Values()`. -/
theorem C03_local_denied (ca : Entry → Bool) (L : Log) (mk : Nat → List Nat → Entry)
    (hcan : ca (mk (appendTime L) (appendNext L)) = false) :
    (append ca L mk).2 = .error .denied ∧
    (append ca L mk).1.entries = L.entries ∧ (append ca L mk).1.heads = L.heads ∧
    (append ca L mk).1.nextIdx = L.nextIdx ∧ (append ca L mk).1.id = L.id ∧
    values (append ca L mk).1 = values L := by
  have h1 : (append ca L mk).1 = { L with clock := appendTime L } := by
    rw [append_eq, hcan]; simp
  refine ⟨?_, ?_, ?_, ?_, ?_, ?_⟩
  · unfold append; simp [hcan]
  all_goals rw [h1]
  all_goals rfl

/-! ### C04 -/

/-- **C04 (valid entries unaffected).** For *any* incoming log, `join` either fails — no new state
exists — or yields a log that still holds every entry held before. -/
theorem C04_unaffected (ca : Entry → Bool) (L : Log) (A headsA : OMap) (Aid : Nat) :
    (∃ err, join ca L A headsA Aid = .error err) ∨
    (∃ L', join ca L A headsA Aid = .ok L' ∧ ∀ e ∈ L.entries, e ∈ L'.entries) := by
  cases h : join ca L A headsA Aid with
  | error err => exact Or.inl ⟨err, rfl⟩
  | ok L' => exact Or.inr ⟨L', rfl, join_mono h⟩

/-- **C04 (never merged).** For *any* incoming log, whatever a successful `join` adds passed the
access controller, verifies, and carries this log's id. -/
theorem C04_never_merged {ca : Entry → Bool} {L L' : Log} {A headsA : OMap} {Aid : Nat}
    (h : join ca L A headsA Aid = .ok L') :
    ∀ e ∈ L'.entries, e ∉ L.entries → ca e = true ∧ e.sigOk = true ∧ e.logId = L.id := by
  intro e he hn
  rcases join_new_acceptable h e he with h1 | ⟨h1, h2, h3, _⟩
  · exact absurd h1 hn
  · exact ⟨h1, h2, h3⟩

theorem joinAllA_id (acl : Acl) (logs : List (OMap × OMap)) : ∀ L : Log, (joinAll acl L logs).id = L.id := by
  induction logs with
  | nil => intro L; rfl
  | cons p rest ih =>
    intro L
    obtain ⟨es, hs⟩ := p
    unfold joinAll
    cases h : join acl.canAppend L es hs L.id with
    | error err => exact ih L
    | ok L' => simp only; rw [ih L', joinA_id h]

/-- `replicationLoadComplete` never removes an entry, whatever logs it is handed -/
theorem joinAllA_mono (acl : Acl) (logs : List (OMap × OMap)) :
    ∀ L : Log, ∀ e ∈ L.entries, e ∈ (joinAll acl L logs).entries := by
  induction logs with
  | nil => intro L e he; exact he
  | cons p rest ih =>
    intro L e he
    obtain ⟨es, hs⟩ := p
    unfold joinAll
    cases h : join acl.canAppend L es hs L.id with
    | error err => exact ih L e he
    | ok L' => exact ih L' e (join_mono h e he)

/-- whatever `replicationLoadComplete` adds passed the access controller, verifies, is ours -/
theorem joinAll_new_acceptable (acl : Acl) (logs : List (OMap × OMap)) :
    ∀ L : Log, ∀ e ∈ (joinAll acl L logs).entries,
      e ∈ L.entries ∨ (acl.canAppend e = true ∧ e.sigOk = true ∧ e.logId = L.id) := by
  induction logs with
  | nil => intro L e he; exact Or.inl he
  | cons p rest ih =>
    intro L e he
    obtain ⟨es, hs⟩ := p
    unfold joinAll at he
    cases h : join acl.canAppend L es hs L.id with
    | error err => rw [h] at he; exact ih L e he
    | ok L' =>
      rw [h] at he
      rcases ih L' e he with h1 | ⟨h1, h2, h3⟩
      · rcases join_new_acceptable h e h1 with h4 | ⟨h4, h5, h6, _⟩
        · exact Or.inl h4
        · exact Or.inr ⟨h4, h5, h6⟩
      · exact Or.inr ⟨h1, h2, by rw [h3, joinA_id h]⟩

/-- **C04 for the store's batch join**: arbitrary logs; held entries stay, additions are valid -/
theorem C04_joinAll (acl : Acl) (L : Log) (logs : List (OMap × OMap)) :
    (∀ e ∈ L.entries, e ∈ (joinAll acl L logs).entries) ∧
    (∀ e ∈ (joinAll acl L logs).entries, e ∉ L.entries →
      acl.canAppend e = true ∧ e.sigOk = true ∧ e.logId = L.id) :=
  ⟨joinAllA_mono acl logs L, fun e he hn =>
    (joinAll_new_acceptable acl logs L e he).elim (fun h => absurd h hn) id⟩

/-- **C04 (address check).** `Sync`'s pre-check lets through no head that passes the access check
and is wrongly addressed: such a head aborts the `Sync` with `hashMismatch`. -/
theorem C04_hash (acl : Acl) (heads : List Entry) (hok : syncPrecheck0 acl heads = .ok) :
    ∀ h ∈ heads, acl.canAppend h = true → h.hashOk = true := by
  induction heads with
  | nil => intro h hh; simp at hh
  | cons a as ih =>
    intro h hh hc
    unfold syncPrecheck0 at hok
    cases hca : acl.canAppend a
    · rw [hca] at hok
      simp only [Bool.not_false, if_true] at hok
      rcases List.mem_cons.mp hh with rfl | hh
      · rw [hca] at hc; exact Bool.noConfusion hc
      · exact ih hok h hh hc
    · rw [hca] at hok
      simp only [Bool.not_true, Bool.false_eq_true, if_false] at hok
      cases hha : a.hashOk
      · rw [hha] at hok; simp at hok
      · rw [hha] at hok
        simp only [Bool.not_true, Bool.false_eq_true, if_false] at hok
        rcases List.mem_cons.mp hh with rfl | hh
        · exact hha
        · exact ih hok h hh hc

/-- the pre-check's only outcomes: `ok` or `hashMismatch` -/
theorem syncPrecheck_cases (acl : Acl) (heads : List Entry) :
    syncPrecheck0 acl heads = .ok ∨ syncPrecheck0 acl heads = .hashMismatch := by
  induction heads with
  | nil => exact Or.inl rfl
  | cons a as ih =>
    unfold syncPrecheck0
    split
    · exact ih
    · split
      · exact Or.inr rfl
      · exact ih

end Orbit
