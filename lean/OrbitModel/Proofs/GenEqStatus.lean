import OrbitModel.Generated.GenStatus
import OrbitModel.Model.Status
/-!
# Regenerated Go fragment = hand-written model (tie 2); one small module per fragment, so that a
change to one Go function only stops the theorems tied to it
-/
namespace Orbit

theorem gen_recalcProgress (len : Int) (s : Status) :
    Gen.genRecalcProgress len s.max s.progress = (recalcProgress len s).progress := by
  unfold Gen.genRecalcProgress recalcProgress
  simp only []
  split <;> split <;> simp_all <;> omega

theorem gen_recalcMax (len : Int) (s : Status) (arg : Int) :
    Gen.genRecalcMax len s.max s.progress arg = (recalcMax len s arg).max := by
  unfold Gen.genRecalcMax recalcMax
  simp only []
  split <;> split <;> simp_all <;> omega

end Orbit
