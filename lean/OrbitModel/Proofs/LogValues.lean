import OrbitModel.Proofs.LogAppend
import OrbitModel.Proofs.Trav
/-!
# `Values()` lists exactly the entries, strictly ascending in the log order; it is a function of
the entry *set*.

Universe hypotheses (defined in `EntryOrder.lean`): `HashDet`, `TieFree`, `ClockMono`.
-/
namespace Orbit

theorem mem_children {L : Log} {p c : Entry} (h : c ∈ children L p) :
    c ∈ L.entries ∧ c.hash ∈ p.next := by
  unfold children at h
  obtain ⟨n, hn, hg⟩ := List.mem_filterMap.mp h
  obtain ⟨h1, h2⟩ := get_some hg
  exact ⟨h1, h2 ▸ hn⟩

/-- a log satisfying the invariants is a `Trav.ShapeOn` instance -/
theorem shape_of_inv {U : List Entry} (hU : HashDet U) (hT : TieFree U) (hM : ClockMono U) (L : Log)
    (hI : Inv U L) (hnd : L.entries.Nodup) :
    Trav.ShapeOn Entry.lt (children L) L.entries L.heads where
  ord := strictTotalOn_lt hT L.entries hI.sub
  snodup := hnd
  rnodup := hI.hnodup
  rootsIn := fun r hr => ((hI.heads r).mp hr).1
  kidsIn := by
    intro p hp c hc
    obtain ⟨h1, h2⟩ := mem_children hc
    exact ⟨h1, hM p (hI.sub p hp) c (hI.sub c h1) h2⟩
  covered := by
    intro x hx
    by_cases hr : x.hash ∈ nexts L.entries
    · right
      obtain ⟨p, hp, hn⟩ := (mem_nexts _ _).mp hr
      refine ⟨p, hp, ?_⟩
      unfold children
      exact List.mem_filterMap.mpr ⟨x.hash, hn, get_of_mem hU hI.sub hx⟩
    · exact Or.inl ((hI.heads x).mpr ⟨hx, hr⟩)
  rootFree := by
    intro p hp c hc hroot
    obtain ⟨_, h2⟩ := mem_children hc
    exact ((hI.heads c).mp hroot).2 ((mem_nexts _ _).mpr ⟨p, hp, h2⟩)

/-- **`Values()` is the entry set sorted ascending by (time, clock id).** -/
theorem values_sorted {U : List Entry} (hU : HashDet U) (hT : TieFree U) (hM : ClockMono U) (L : Log)
    (hI : Inv U L) (hnd : L.entries.Nodup) :
    (values L).Pairwise (fun a b => Entry.lt a b = true) ∧ ∀ x, x ∈ values L ↔ x ∈ L.entries := by
  have hS := shape_of_inv hU hT hM L hI hnd
  obtain ⟨hd, hm⟩ := Trav.traverse_sorted_on hS (travFuel L) (by unfold travFuel; omega)
  unfold values traverseN
  refine ⟨?_, fun x => by rw [List.mem_reverse]; exact hm x⟩
  rw [List.pairwise_reverse]
  exact hd

/-- a newest-first prefix: `traverse(heads, amount)` with enough fuel is the whole set, descending -/
theorem traverseN_sorted {U : List Entry} (hU : HashDet U) (hT : TieFree U) (hM : ClockMono U) (L : Log)
    (hI : Inv U L) (hnd : L.entries.Nodup) (n : Nat) (hn : L.entries.length ≤ n) :
    Trav.Desc Entry.lt (traverseN L n) ∧ ∀ x, x ∈ traverseN L n ↔ x ∈ L.entries :=
  Trav.traverse_sorted_on (shape_of_inv hU hT hM L hI hnd) n hn

/-- lists strictly sorted by `Entry.lt` with the same members are equal -/
theorem sorted_lt_unique {l₁ l₂ : List Entry}
    (h₁ : l₁.Pairwise (fun a b => Entry.lt a b = true))
    (h₂ : l₂.Pairwise (fun a b => Entry.lt a b = true))
    (h : ∀ x, x ∈ l₁ ↔ x ∈ l₂) : l₁ = l₂ := by
  have nd : ∀ {l : List Entry}, l.Pairwise (fun a b => Entry.lt a b = true) → l.Nodup := by
    intro l hl
    apply List.Pairwise.imp _ hl
    intro a b hab e
    subst e
    rw [Entry.lt_irrefl] at hab
    exact Bool.noConfusion hab
  apply List.Perm.eq_of_pairwise (le := fun a b => Entry.lt a b = true) _ h₁ h₂
    ((List.perm_ext_iff_of_nodup (nd h₁) (nd h₂)).mpr h)
  intro a b _ _ hab hba
  have := Entry.lt_trans _ _ _ hab hba
  rw [Entry.lt_irrefl] at this
  exact Bool.noConfusion this

theorem sorted_desc_unique {l₁ l₂ : List Entry} (h₁ : Trav.Desc Entry.lt l₁) (h₂ : Trav.Desc Entry.lt l₂)
    (h : ∀ x, x ∈ l₁ ↔ x ∈ l₂) : l₁ = l₂ := by
  have := sorted_lt_unique (List.pairwise_reverse.mpr h₁) (List.pairwise_reverse.mpr h₂)
    (fun x => by simp only [List.mem_reverse]; exact h x)
  exact List.reverse_inj.mp this

/-- **`Values()` depends only on the set of entries.** -/
theorem values_unique {U : List Entry} (hU : HashDet U) (hT : TieFree U) (hM : ClockMono U)
    (L1 L2 : Log) (hI1 : Inv U L1) (hnd1 : L1.entries.Nodup) (hI2 : Inv U L2) (hnd2 : L2.entries.Nodup)
    (h : ∀ x, x ∈ L1.entries ↔ x ∈ L2.entries) : values L1 = values L2 := by
  obtain ⟨s1, m1⟩ := values_sorted hU hT hM L1 hI1 hnd1
  obtain ⟨s2, m2⟩ := values_sorted hU hT hM L2 hI2 hnd2
  exact sorted_lt_unique s1 s2 (fun x => by rw [m1, m2]; exact h x)

/-- logs with the same entry set have the same head set -/
theorem heads_same {U : List Entry} {L1 L2 : Log} (hI1 : Inv U L1) (hI2 : Inv U L2)
    (h : ∀ x, x ∈ L1.entries ↔ x ∈ L2.entries) : ∀ x, x ∈ L1.heads ↔ x ∈ L2.heads := by
  have hn : ∀ n, n ∈ nexts L1.entries ↔ n ∈ nexts L2.entries := by
    intro n
    simp only [mem_nexts]
    constructor
    · rintro ⟨e, he, hn⟩; exact ⟨e, (h e).mp he, hn⟩
    · rintro ⟨e, he, hn⟩; exact ⟨e, (h e).mpr he, hn⟩
  intro x
  rw [hI1.heads, hI2.heads, h x, hn x.hash]

theorem sortedHeads_desc {U : List Entry} (hT : TieFree U) {L : Log} (hI : Inv U L) :
    Trav.Desc Entry.lt (sortedHeads L) :=
  Trav.desc_sortDesc (strictTotalOn_lt hT L.heads (fun e he => hI.sub e ((hI.heads e).mp he).1))
    L.heads (fun _ h => h) hI.hnodup

/-- **the sorted heads depend only on the set of entries** -/
theorem sortedHeads_unique {U : List Entry} (hT : TieFree U)
    (L1 L2 : Log) (hI1 : Inv U L1) (hI2 : Inv U L2)
    (h : ∀ x, x ∈ L1.entries ↔ x ∈ L2.entries) : sortedHeads L1 = sortedHeads L2 := by
  apply sorted_desc_unique (sortedHeads_desc hT hI1) (sortedHeads_desc hT hI2)
  intro x
  unfold sortedHeads
  rw [Trav.mem_sortDesc, Trav.mem_sortDesc]
  exact heads_same hI1 hI2 h x

end Orbit
