import OrbitModel.Proofs.Durable
import OrbitModel.Proofs.StoreCovers
/-!
# `Join` keeps the log closed under `next` when the incoming log brings its parents   (C05)

`difference` is closed: every `next` link of a new item is held already, or names a new item, or is
not acceptable (absent from the incoming log / foreign log id). Hence, if every `next` link of the
incoming entries names an incoming entry or an entry already held, the joined log is `Closed`; and
if moreover the incoming heads cover the incoming log, every incoming entry ends up in the log.
These are sufficient conditions, on the *input* of `replicationLoadComplete`, for the two
result-level hypotheses of `BatchOk` / `Valid.merged`.
-/
namespace Orbit

theorem pushNext_trav_mono (held : OMap) (ns : List Nat) : ∀ (stack trav : List Nat) (x : Nat),
    x ∈ trav → x ∈ (pushNext held ns stack trav).2 := by
  induction ns with
  | nil => intro stack trav x hx; simpa [pushNext] using hx
  | cons n ns ih =>
    intro stack trav x hx
    rw [pushNext_unfold]
    split
    · exact ih stack trav x hx
    · exact ih _ _ x (List.mem_cons_of_mem _ hx)

/-- each link is marked traversed (now or earlier) or is held -/
theorem pushNext_covers (held : OMap) (ns : List Nat) : ∀ (stack trav : List Nat),
    ∀ n ∈ ns, n ∈ (pushNext held ns stack trav).2 ∨ has held n = true := by
  induction ns with
  | nil => intro _ _ n hn; cases hn
  | cons m ns ih =>
    intro stack trav n hn
    rw [pushNext_unfold]
    rcases List.mem_cons.mp hn with rfl | hn
    · split
      · rename_i hc
        simp only [Bool.or_eq_true, List.contains_eq_mem, decide_eq_true_eq] at hc
        rcases hc with hc | hc
        · exact Or.inl (pushNext_trav_mono _ _ _ _ _ hc)
        · exact Or.inr hc
      · exact Or.inl (pushNext_trav_mono _ _ _ _ _ List.mem_cons_self)
    · split
      · exact ih stack trav n hn
      · exact ih _ _ n hn

/-- what is newly marked traversed is on the stack -/
theorem pushNext_trav (held : OMap) (ns : List Nat) : ∀ (stack trav : List Nat) (x : Nat),
    x ∈ (pushNext held ns stack trav).2 → x ∈ trav ∨ x ∈ (pushNext held ns stack trav).1 := by
  induction ns with
  | nil => intro stack trav x hx; left; simpa [pushNext] using hx
  | cons n ns ih =>
    intro stack trav x hx
    rw [pushNext_unfold] at hx ⊢
    split
    · rename_i hc; simp only [hc, if_true] at hx; exact ih stack trav x hx
    · rename_i hc; simp only [hc] at hx
      rcases ih _ _ x hx with h | h
      · rcases List.mem_cons.mp h with rfl | h
        · exact Or.inr (pushNext_stack_mono _ _ _ _ _ (List.mem_append_right _ List.mem_cons_self))
        · exact Or.inl h
      · exact Or.inr h

/-- a hash `difference` would take: present in `A`, not held, of our log id -/
def Takes (A : OMap) (L : Log) (n : Nat) : Prop :=
  ∃ e, get A n = some e ∧ has L.entries n = false ∧ e.logId = L.id

/-- **the work-list loop of `difference` is closed under `next`** (given enough fuel) -/
theorem diffLoop_closed (A : OMap) (L : Log) :
    ∀ (fuel : Nat) (stack trav : List Nat) (res : OMap),
      stack.length + W (nexts A) trav < fuel →
      (∀ x ∈ res, ∀ n ∈ x.next, n ∈ trav ∨ has L.entries n = true) →
      (∀ n ∈ trav, n ∈ stack ∨ (Takes A L n → ∃ y ∈ res, y.hash = n)) →
      ∀ x ∈ diffLoop A L fuel stack trav res, ∀ n ∈ x.next,
        has L.entries n = true ∨ (Takes A L n → ∃ y ∈ diffLoop A L fuel stack trav res, y.hash = n) := by
  intro fuel
  induction fuel with
  | zero => intro _ _ _ hlt; omega
  | succ f ih =>
    intro stack trav res hlt hJ1 hJ2
    cases stack with
    | nil =>
      intro x hx n hn
      rcases hJ1 x hx n hn with h | h
      · rcases hJ2 n h with h | h
        · cases h
        · exact Or.inr h
      · exact Or.inl h
    | cons hd stack =>
      simp only [List.length_cons] at hlt
      -- the popped hash is dropped: it was not takeable
      have drop : ¬ Takes A L hd →
          ∀ x ∈ diffLoop A L f stack trav res, ∀ n ∈ x.next, has L.entries n = true ∨
            (Takes A L n → ∃ y ∈ diffLoop A L f stack trav res, y.hash = n) := by
        intro hno
        apply ih stack trav res (by omega) hJ1
        intro n hn
        rcases hJ2 n hn with h | h
        · rcases List.mem_cons.mp h with rfl | h
          · exact Or.inr (fun ht => absurd ht hno)
          · exact Or.inl h
        · exact Or.inr h
      simp only [diffLoop]
      cases hg : get A hd with
      | none => exact drop (fun ⟨e, he, _⟩ => by rw [hg] at he; cases he)
      | some eA =>
        obtain ⟨heA, hhash⟩ := get_some hg
        simp only
        split
        · rename_i hcond
          have hsubn : ∀ n ∈ eA.next, n ∈ nexts A := fun n hn => (mem_nexts A n).mpr ⟨eA, heA, hn⟩
          have hm := pushNext_measure L.entries (nexts A) eA.next stack (hd :: trav) hsubn
          have hw := W_cons_le (nexts A) trav hd
          have hdone : ∃ y ∈ set res eA, y.hash = hd := by
            cases hs : has res eA.hash
            · exact ⟨eA, (mem_set res eA eA).mpr (Or.inr ⟨rfl, hs⟩), hhash⟩
            · obtain ⟨y, hy, hyh⟩ := (has_iff res eA.hash).mp hs
              exact ⟨y, (mem_set res eA y).mpr (Or.inl hy), hyh.trans hhash⟩
          apply ih _ _ _ (by omega)
          · intro x hx n hn
            rcases (mem_set res eA x).mp hx with hx | ⟨rfl, _⟩
            · rcases hJ1 x hx n hn with h | h
              · exact Or.inl (pushNext_trav_mono _ _ _ _ _ (List.mem_cons_of_mem _ h))
              · exact Or.inr h
            · exact pushNext_covers L.entries x.next stack (hd :: trav) n hn
          · intro n hn
            have keep : (Takes A L n → ∃ y ∈ res, y.hash = n) →
                (Takes A L n → ∃ y ∈ set res eA, y.hash = n) := fun h ht => by
              obtain ⟨y, hy, hyn⟩ := h ht
              exact ⟨y, (mem_set res eA y).mpr (Or.inl hy), hyn⟩
            rcases pushNext_trav _ _ _ _ n hn with h | h
            · rcases List.mem_cons.mp h with rfl | h
              · exact Or.inr (fun _ => hdone)
              · rcases hJ2 n h with h | h
                · rcases List.mem_cons.mp h with rfl | h
                  · exact Or.inr (fun _ => hdone)
                  · exact Or.inl (pushNext_stack_mono _ _ _ _ _ h)
                · exact Or.inr (keep h)
            · exact Or.inl h
        · rename_i hcond
          apply drop
          rintro ⟨e, he, hheld, hlid⟩
          rw [hg] at he; cases he
          simp only [Bool.and_eq_true, Bool.not_eq_true', beq_iff_eq, not_and] at hcond
          exact hcond hheld hlid

theorem difference_closed (A headsA : OMap) (L : Log) :
    ∀ x ∈ difference A headsA L, ∀ n ∈ x.next, has L.entries n = true ∨
      (Takes A L n → ∃ y ∈ difference A headsA L, y.hash = n) := by
  unfold difference
  apply diffLoop_closed A L
  · have h1 : W (nexts A) [] ≤ (nexts A).length := by unfold W; exact List.length_filter_le _ _
    simp only [List.length_map]; omega
  · intro x hx; cases hx
  · intro n hn; cases hn

/-- an entry list seen as a log, to speak of reachability inside it -/
def asLog (A : OMap) : Log := { id := 0, entries := A, heads := [], nextIdx := [], clock := 0 }

/-- the incoming log brings its parents: every link names an incoming entry or one already held -/
def ParentsIn (A : OMap) (L : Log) : Prop :=
  ∀ e ∈ A, ∀ n ∈ e.next, has A n = true ∨ has L.entries n = true

/-- **`Join` keeps the log closed** when the incoming log brings its parents -/
theorem join_closed {U : List Entry} (hU : HashDet U) {canAppend : Entry → Bool} {L L' : Log}
    {A headsA : OMap} (hI : Inv U L) (hA : Honest U A headsA) (hid : ∀ e ∈ A, e.logId = L.id)
    (hC : Closed L) (hpar : ParentsIn A L) (hj : join canAppend L A headsA L.id = .ok L') :
    Closed L' := by
  have hent := join_entries hU hI hA rfl hj
  have hsub : ∀ e ∈ L.entries, e ∈ L'.entries := fun e he => (hent e).mpr (Or.inl he)
  intro e he n hn
  rcases (hent e).mp he with heL | heN
  · exact has_mono hsub (hC e heL n hn)
  · have heA := (difference_item A headsA L e heN).1
    cases hheld : has L.entries n
    · rcases difference_closed A headsA L e heN n hn with h | h
      · rw [hheld] at h; cases h
      · rcases hpar e heA n hn with hAn | hLn
        · obtain ⟨y, hy, hyn⟩ := (has_iff _ _).mp hAn
          have hgy : get A n = some y := hyn ▸ get_of_mem hU hA.sub hy
          obtain ⟨y', hy', hy'n⟩ := h ⟨y, hgy, hheld, hid y hy⟩
          exact (has_iff _ _).mpr ⟨y', (hent y').mpr (Or.inr hy'), hy'n⟩
        · rw [hheld] at hLn; cases hLn
    · exact has_mono hsub hheld

/-- in a closed log over the universe, membership (by hash) propagates along incoming paths -/
theorem desc_in_closed {U : List Entry} (hU : HashDet U) {L' : Log} {A : OMap}
    (hL : ∀ e ∈ L'.entries, e ∈ U) (hAU : ∀ e ∈ A, e ∈ U) (hC : Closed L') {a b : Nat}
    (d : Desc (asLog A) a b) : has L'.entries a = true → has L'.entries b = true := by
  induction d with
  | refl _ => exact id
  | step hp _ hn _ ih =>
    intro ha
    obtain ⟨y, hy, hyh⟩ := (has_iff _ _).mp ha
    have := hU y (hL y hy) _ (hAU _ hp) hyh
    exact ih (hC _ (this ▸ hy) _ hn)

/-- **every incoming entry is merged** when moreover the incoming heads cover the incoming log -/
theorem join_all_in {U : List Entry} (hU : HashDet U) {canAppend : Entry → Bool} {L L' : Log}
    {A headsA : OMap} (hI : Inv U L) (hA : Honest U A headsA) (hid : ∀ e ∈ A, e.logId = L.id)
    (hC : Closed L) (hpar : ParentsIn A L) (hcov : CoveredBy (asLog A) (headsA.map (·.hash)))
    (hj : join canAppend L A headsA L.id = .ok L') : ∀ e ∈ A, e ∈ L'.entries := by
  have hent := join_entries hU hI hA rfl hj
  have hC' := join_closed hU hI hA hid hC hpar hj
  have hL'U : ∀ e ∈ L'.entries, e ∈ U := fun e he => by
    rcases (hent e).mp he with h | h
    · exact hI.sub e h
    · exact hA.sub e (difference_item A headsA L e h).1
  intro e he
  obtain ⟨h, hh, d⟩ := hcov e he
  obtain ⟨x, hx, rfl⟩ := List.mem_map.mp hh
  have hroot : has L'.entries x.hash = true :=
    (has_iff _ _).mpr ⟨x, (hent x).mpr (heads_complete hU L A headsA hA hI.sub hid x hx), rfl⟩
  obtain ⟨y, hy, hye⟩ := (has_iff _ _).mp (desc_in_closed hU hL'U hA.sub hC' d hroot)
  exact (hU y (hL'U y hy) e (hA.sub e he) hye) ▸ hy

/-! ### `replicationLoadComplete`: all the joins of a batch -/

/-- the batch brings its parents, relative to the log before the first join -/
def BatchParents (L : Log) (logs : List (OMap × OMap)) : Prop := ∀ p ∈ logs, ParentsIn p.1 L

/-- the heads of each incoming log cover it -/
def BatchCovered (logs : List (OMap × OMap)) : Prop :=
  ∀ p ∈ logs, CoveredBy (asLog p.1) (p.2.map (·.hash))

theorem joinedEntries_cons (acl : Acl) (L : Log) (es hs : OMap) (rest : List (OMap × OMap)) :
    joinedEntries acl L ((es, hs) :: rest) =
      match join acl.canAppend L es hs L.id with
      | .ok L' => es ++ joinedEntries acl L' rest
      | .error _ => joinedEntries acl L rest := rfl

/-- **`replicationLoadComplete` keeps the log closed** when every log of the batch brings its own
parents, whichever logs are rejected (a rejected log changes nothing; a log that contains a rejected
entry reachable from its heads is rejected as a whole, children included); and if moreover the
heads of each log cover it, every reported entry is in the log -/
theorem joinAll_closed {acl : Acl} {U : List Entry} (hU : HashDet U) (hM : ClockMono U) :
    ∀ (logs : List (OMap × OMap)) (L : Log), Good U L → Closed L → BatchHonest U L.id logs →
      BatchParents L logs →
      Closed (joinAll acl L logs) ∧
      (BatchCovered logs → ∀ e ∈ joinedEntries acl L logs, e ∈ (joinAll acl L logs).entries) := by
  intro logs
  induction logs with
  | nil => intro L _ hC _ _; exact ⟨hC, fun _ e he => by cases he⟩
  | cons q rest ih =>
    intro L hG hC hB hP
    obtain ⟨es, hs⟩ := q
    have hBr : BatchHonest U L.id rest := fun q hq => hB q (List.mem_cons_of_mem _ hq)
    rw [joinAll_cons, joinedEntries_cons]
    cases hj : join acl.canAppend L es hs L.id with
    | error _ =>
      obtain ⟨h1, h2⟩ := ih L hG hC hBr (fun q hq => hP q (List.mem_cons_of_mem _ hq))
      exact ⟨h1, fun hcov => h2 (fun q hq => hcov q (List.mem_cons_of_mem _ hq))⟩
    | ok L' =>
      obtain ⟨hA, hid⟩ := hB (es, hs) List.mem_cons_self
      have hpar : ParentsIn es L := hP (es, hs) List.mem_cons_self
      have hG' : Good U L' := good_step hU hM hG (.join L L' es hs L.id hA hid hj)
      have hid' : L'.id = L.id := join_id hj
      have hC' : Closed L' := join_closed hU hG.inv hA hid hC hpar hj
      have hP' : BatchParents L' rest := fun q hq e he n hn =>
        (hP q (List.mem_cons_of_mem _ hq) e he n hn).imp id (has_mono (join_mono hj))
      obtain ⟨h1, h2⟩ := ih L' hG' hC' (hid' ▸ hBr) hP'
      refine ⟨h1, ?_⟩
      intro hcov e he
      rcases List.mem_append.mp he with he | he
      · exact joinAll_mono acl rest L' e
          (join_all_in hU hG.inv hA hid hC hpar (hcov _ List.mem_cons_self) hj e he)
      · exact h2 (fun q hq => hcov q (List.mem_cons_of_mem _ hq)) e he

end Orbit
