import OrbitModel.Proofs.SnapshotRace
/-!
# `LoadFromSnapshot` through the fetcher (what the Go port does) = through the records   (C13)

`ipfslog.NewFromJSON` ignores the entries handed to it and fetches the ancestry of the recorded heads.
Whenever that fetch returns the entries the snapshot recorded — the node that saved the snapshot holds
their blocks, and a saved log is closed under `next` — both loaders build the same log, so every
theorem about `load` is a theorem about `loadFetching`.
-/
namespace Orbit.Snap
open Orbit

/-- a snapshot saved at rest: the fetcher returns the ancestry of the heads, i.e. the log -/
theorem loadFetching_save {acl : Acl} {ser : Entry → List Nat} {serHeader : Image → List Nat}
    {de : List Nat → Option Entry} {deHeader : List Nat → Option (Nat × List Entry × Nat)}
    {L : Log} {bs : List Nat} (fetchAll : List Entry → List Entry)
    (hf : fetchAll (sortedHeads L) = L.entries)
    (hde : ∀ e ∈ L.entries, de (ser e) = some e)
    (hdh : deHeader (serHeader (imageOf L)) = some (L.id, sortedHeads L, L.entries.length))
    (hs : save ser serHeader L = some bs) :
    loadFetching acl de deHeader fetchAll bs = load acl de deHeader bs := by
  obtain ⟨a, b, ha, hb, rfl⟩ := save_some hs
  have h1 := decode_header ha (b ++ [0])
  have h2 := records_roundtrip (L.entries.map ser) b [0] hb
  rw [List.length_map] at h2
  have h3 := mapM_de_ser L.entries hde
  unfold load loadFetching
  simp only [h1, hdh, h2, h3, hf]

/-- a snapshot written while the log grew: the heads are those of the first read (`L1`); the
fetcher returns `L1`'s entries, the records hold `L2`'s (a superset): the fetching loader joins
exactly the log of the first read -/
theorem loadFetching_saveRacing {acl : Acl} {ser : Entry → List Nat} {serHeader : Image → List Nat}
    {de : List Nat → Option Entry} {deHeader : List Nat → Option (Nat × List Entry × Nat)}
    {L1 L2 L3 : Log} {y : List Entry} {bs : List Nat} (fetchAll : List Entry → List Entry)
    (hf : fetchAll (sortedHeads L1) = L1.entries) (h3 : L3.entries = L2.entries ++ y)
    (hde : ∀ e ∈ L2.entries, de (ser e) = some e)
    (hdh : deHeader (serHeader (racingImage L1 L2)) = some (L1.id, sortedHeads L1, L2.entries.length))
    (hs : saveRacing ser serHeader L1 L2 L3 = some bs) :
    loadFetching acl de deHeader fetchAll bs =
      match join acl.canAppend (Log.empty L1.id) (ofList L1.entries) (ofList (sortedHeads L1)) L1.id with
      | .ok L' => some L'
      | .error _ => none := by
  obtain ⟨a, b, c, ha, hb, _, rfl⟩ := saveRacing_some h3 hs
  have h1 := decode_header ha (b ++ (c ++ [0]))
  have h2 := records_roundtrip (L2.entries.map ser) b (c ++ [0]) hb
  rw [List.length_map] at h2
  have h4 := mapM_de_ser L2.entries hde
  unfold loadFetching
  simp only [h1, hdh, h2, h4, hf]
  cases join acl.canAppend (Log.empty L1.id) (ofList L1.entries) (ofList (sortedHeads L1)) L1.id <;> rfl

end Orbit.Snap
