import OrbitModel.Generated.GenConsts
/-!
# Regenerated Go fragment = hand-written model (tie 2); one small module per fragment, so that a
change to one Go function only stops the theorems tied to it
-/
namespace Orbit

theorem gen_batchSize : Gen.batchSize = 1 := rfl

theorem gen_referenceCount : Gen.referenceCount = 64 := rfl

end Orbit
