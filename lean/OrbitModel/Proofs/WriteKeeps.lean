import OrbitModel.Proofs.CacheReach
import OrbitModel.Proofs.StoreReach
import OrbitModel.Proofs.LoadExamples
/-!
# A local write never forgets what the cache pointed to   (C05, finding F33)

`AddOperation` used to write `_localHeads := [e]`. The new entry names the heads of the log in
memory; on a store that does not hold its cached local head (opened with `Load(n)` or
`LoadFromSnapshot`) that head, and the acknowledged writes only it leads to, became unreachable.
-/
namespace Orbit

/-- an append keeps what the log held -/
theorem append_has_mono (ca : Entry → Bool) (L : Log) (mk : Nat → List Nat → Entry) (h : Nat)
    (hh : has L.entries h = true) : has (append ca L mk).1.entries h = true := by
  obtain ⟨y, hy, hyx⟩ := (has_iff _ _).mp hh
  refine (has_iff _ _).mpr ⟨y, ?_, hyx⟩
  rw [append_eq]
  split
  · simp only [set]; split
    · exact hy
    · exact List.mem_append_left _ hy
  · exact hy

/-- **nothing the cache pointed to is forgotten by a write**: every local head cached before an
`AddOperation` is cached after it, or the log holds it -/
theorem addOp_keeps_cached (acl : Acl) (s : Store) (mk : Nat → List Nat → Entry) :
    ∀ h ∈ s.localHeads.getD [], h ∈ (s.addOp acl mk).1.localHeads.getD [] ∨
      has (s.addOp acl mk).1.log.entries h = true := by
  intro h hh
  rw [addOp_localHeads, addOp_log]
  split
  · simp only [Option.getD_some, List.mem_cons]
    by_cases hl : has s.log.entries h = true
    · exact Or.inr (append_has_mono _ _ _ _ hl)
    · left; right
      simp only [keptHeads, List.mem_filter]
      exact ⟨hh, by simpa using hl⟩
  · exact Or.inl hh

/-- on a store whose log holds its cached local heads (any store that loaded without a limit, any
store that has only written since) the rule changes nothing: `_localHeads = [e]` -/
theorem addOp_eq_addOp0 (acl : Acl) (s : Store) (mk : Nat → List Nat → Entry)
    (h : ∀ x ∈ s.localHeads.getD [], has s.log.entries x = true) :
    s.addOp acl mk = s.addOp0 acl mk := by
  rw [addOp_eq]
  split
  · rfl
  · rename_i e he
    have hk : keptHeads s.localHeads s.log = [] := by
      simp only [keptHeads, List.filter_eq_nil_iff]
      intro x hx
      simp [h x hx]
    rw [hk]
    have hl := addOp0_localHeads acl s mk
    have h2 := addOp0_snd acl s mk
    rw [append_snd] at h2
    rw [he] at h2
    split at h2
    · rename_i hc
      injection h2 with h2
      rw [if_pos hc] at hl
      rcases hs : s.addOp0 acl mk with ⟨s', r⟩
      rw [hs] at hl he
      simp only at hl he
      subst he
      rw [h2]
      show ({ s' with localHeads := some [(mk (appendTime s.log) (appendNext s.log)).hash] }, _) = (s', _)
      rw [← hl]
    · cases h2

/-- **a write never shrinks what the cache reaches**, whatever the store had loaded: a cached local
head is kept, or the log holds it and then the new entry — which names every head of the log —
reaches it; the remote heads are untouched -/
theorem addOp_reach_mono {acl : Acl} {U : List Entry} (hM : ClockMono U) {s : Store}
    {mk : Nat → List Nat → Entry} (hG : Good U s.log) (hw : WriteOk acl U s.log mk) (hU : HashDet U) :
    ∀ x, ReachU U s.cachedHeads x → ReachU U (s.addOp acl mk).1.cachedHeads x := by
  intro x hx
  apply ReachU.of_roots _ hx
  intro r hr
  unfold Store.cachedHeads at hr ⊢
  rcases List.mem_append.mp hr with hl | hrm
  · rcases addOp_keeps_cached acl s mk r hl with hk | hheld
    · exact .root (List.mem_append_left _ hk)
    · -- held by the log after the write
      cases hcan : acl.canAppend (mk (appendTime s.log) (appendNext s.log))
      · -- refused: nothing changed
        rw [addOp_localHeads, hcan]
        exact .root (List.mem_append_left _ hl)
      · obtain ⟨_, h2, _, h4⟩ := hw hcan
        have hcov := append_covers hM acl.canAppend s.log mk hG h2 h4 hcan
        have hgood := addOp_good (acl := acl) hU hM hG hw
        rw [addOp_log] at hheld hgood
        obtain ⟨y, hy, hyr⟩ := (has_iff _ _).mp hheld
        obtain ⟨h, hh, d⟩ := hcov y hy
        rw [hyr] at d
        apply d.reachU hgood.inv.sub
        apply List.mem_append_left
        rw [addOp_localHeads, hcan]
        simp only [if_true, Option.getD_some]
        rcases List.mem_singleton.mp hh with rfl
        exact List.mem_cons_self
  · exact .root (List.mem_append_right _ (by rw [addOp_remoteHeads]; exact hrm))

namespace LoadExample

/-- the store after `LoadFromSnapshot` of a snapshot taken at `c3`, while the cache names the later
acknowledged write 5 as the local head: the log does not hold 5 -/
def afterSnapshot : Store := { kind := .log, log := logOfEntries 9 [c1, c2, c3], localHeads := some [5] }

def w6 : Nat → List Nat → Entry := fun t n => { hash := 6, logId := 9, time := t, cid := 0, next := n }

/-- a write on it: before the F33 repair `_localHeads` became `[6]` and nothing led to 5 any more;
now 5 stays cached next to 6 -/
theorem write_on_partial_store_witness :
    (afterSnapshot.addOp0 acl w6).1.localHeads = some [6] ∧
    has (afterSnapshot.addOp0 acl w6).1.log.entries 5 = false ∧
    (afterSnapshot.addOp acl w6).1.localHeads = some [6, 5] := by
  decide

end LoadExample

end Orbit
