import OrbitModel.Model.Refetch
/-!
# The refetch loop of `Load` ends, and ends with enough   (C15, F57)
-/
namespace Orbit.Refetch

theorem refused_le (good : Entry → Bool) (F : OMap) : refused good F ≤ F.length :=
  List.length_filter_le _ _

/-- the entries `Load` keeps of a fetch -/
def kept (good : Entry → Bool) (F : OMap) : Nat := (F.filter good).length

theorem kept_add_refused (good : Entry → Bool) (F : OMap) : kept good F + refused good F = F.length := by
  unfold kept refused
  induction F with
  | nil => rfl
  | cons e F ih =>
    simp only [List.filter_cons]
    cases hg : good e <;> simp [hg] <;> omega

/-- **the loop ends** — when the fetcher never returns more than it is asked for nor more than the `T`
entries there are, `T + 1` rounds are enough — **and ends on a fetch that either left nothing out, or
reached the whole log (it returned fewer entries than asked), or keeps at least `amount` entries** -/
theorem loop_done (fetchN : Nat → OMap) (good : Entry → Bool) (amount T : Nat)
    (hle : ∀ n, (fetchN n).length ≤ n) (hT : ∀ n, (fetchN n).length ≤ T) :
    ∀ fuel len, T + 1 ≤ fuel + len → done fetchN good amount (loop fetchN good amount fuel len) = true
  | 0, len, h => by
    -- asked for more than there is: the fetch comes back short
    unfold loop done
    have : (fetchN len).length < len := by have := hT len; omega
    simp [this]
  | fuel+1, len, h => by
    unfold loop
    by_cases hd : done fetchN good amount len = true
    · simp [hd]
    · simp only [hd, Bool.false_eq_true, if_false]
      apply loop_done fetchN good amount T hle hT fuel
      -- not done: the fetch was full, something was left out and too little kept: the next length is larger
      unfold done at hd
      simp only [Bool.or_eq_true, beq_iff_eq, decide_eq_true_eq, not_or, Nat.not_lt, Nat.not_le] at hd
      obtain ⟨⟨_, h2⟩, h3⟩ := hd
      have := hle len
      unfold nextLen
      split <;> omega

/-- in the terms of the entries kept: at the end the fetch keeps at least `amount` entries, or it is
the whole log, or nothing was left out of it -/
theorem loop_keeps_enough (fetchN : Nat → OMap) (good : Entry → Bool) (amount T : Nat)
    (hle : ∀ n, (fetchN n).length ≤ n) (hT : ∀ n, (fetchN n).length ≤ T) (len : Nat) :
    kept good (fetchN (loop fetchN good amount (T + 1) len)) ≥ amount ∨
    (fetchN (loop fetchN good amount (T + 1) len)).length < loop fetchN good amount (T + 1) len ∨
    refused good (fetchN (loop fetchN good amount (T + 1) len)) = 0 := by
  have hd := loop_done fetchN good amount T hle hT (T + 1) len (by omega)
  generalize loop fetchN good amount (T + 1) len = n at hd ⊢
  unfold done at hd
  simp only [Bool.or_eq_true, beq_iff_eq, decide_eq_true_eq] at hd
  have hk := kept_add_refused good (fetchN n)
  have hr := refused_le good (fetchN n)
  rcases hd with (h | h) | h
  · exact Or.inr (Or.inr h)
  · exact Or.inr (Or.inl h)
  · left; omega

/-- **the loop with a fetcher that changes from round to round** (entries found to belong to another log
are excluded from the next fetch: F63) **ends, and ends as before**: whatever the fetchers of the rounds
are, as long as none returns more than it is asked for nor more than `T` entries, `T + 1` rounds are
enough and the last fetch either left nothing out, or came back short, or keeps at least `amount` -/
theorem loopR_done (fs : Nat → Nat → OMap) (good : Entry → Bool) (amount T : Nat)
    (hle : ∀ k n, (fs k n).length ≤ n) (hT : ∀ k n, (fs k n).length ≤ T) :
    ∀ fuel k len, T + 1 ≤ fuel + len →
      done (fs (loopR fs good amount fuel k len).1) good amount (loopR fs good amount fuel k len).2 = true
  | 0, k, len, h => by
    unfold loopR done
    have : (fs k len).length < len := by have := hT k len; omega
    simp [this]
  | fuel+1, k, len, h => by
    unfold loopR
    by_cases hd : done (fs k) good amount len = true
    · simp [hd]
    · simp only [hd, Bool.false_eq_true, if_false]
      apply loopR_done fs good amount T hle hT fuel
      unfold done at hd
      simp only [Bool.or_eq_true, beq_iff_eq, decide_eq_true_eq, not_or, Nat.not_lt, Nat.not_le] at hd
      obtain ⟨⟨_, h2⟩, h3⟩ := hd
      have := hle k len
      unfold nextLen
      split <;> omega

theorem loopR_keeps_enough (fs : Nat → Nat → OMap) (good : Entry → Bool) (amount T : Nat)
    (hle : ∀ k n, (fs k n).length ≤ n) (hT : ∀ k n, (fs k n).length ≤ T) (len : Nat) :
    let r := loopR fs good amount (T + 1) 0 len
    kept good (fs r.1 r.2) ≥ amount ∨ (fs r.1 r.2).length < r.2 ∨ refused good (fs r.1 r.2) = 0 := by
  intro r
  have hd := loopR_done fs good amount T hle hT (T + 1) 0 len (by omega)
  change done (fs r.1) good amount r.2 = true at hd
  generalize r.1 = k at hd ⊢
  generalize r.2 = n at hd ⊢
  unfold done at hd
  simp only [Bool.or_eq_true, beq_iff_eq, decide_eq_true_eq] at hd
  have hk := kept_add_refused good (fs k n)
  have hr := refused_le good (fs k n)
  rcases hd with (h | h) | h
  · exact Or.inr (Or.inr h)
  · exact Or.inr (Or.inl h)
  · left; omega

/-- with one fetcher for every round this is the loop of F57 -/
theorem loopR_const (fetchN : Nat → OMap) (good : Entry → Bool) (amount : Nat) :
    ∀ fuel k len, (loopR (fun _ => fetchN) good amount fuel k len).2 = loop fetchN good amount fuel len
  | 0, _, _ => rfl
  | fuel+1, k, len => by
    unfold loopR loop
    by_cases hd : done fetchN good amount len = true
    · simp [hd]
    · simp only [hd, Bool.false_eq_true, if_false]
      exact loopR_const fetchN good amount fuel (k + 1) _

/-- the review's input in small: the 3 newest entries reached from the head belong to another log. The
fetcher of a round leaves out what the earlier rounds found foreign (`all` minus the first `2k` foreign
ones here): two rounds, and the second one is not asked to walk through the foreign entries again -/
theorem excluding_fetch_example :
    let e (h : Nat) (lg : Nat) : Entry := { hash := h, logId := lg, time := h, cid := 0, next := [] }
    let all : OMap := [e 9 1, e 8 7, e 7 7, e 6 7, e 5 1, e 4 1, e 3 1, e 2 1, e 1 1]
    let seen (k : Nat) : OMap := (all.take (3 * k)).filter (fun x => x.logId != 1)
    let fs : Nat → Nat → OMap := fun k n => (all.filter (fun x => !(seen k).contains x)).take n
    let good : Entry → Bool := fun x => x.logId == 1
    loopR fs good 3 10 0 3 = (1, 6) ∧ kept good (fs 1 6) = 5 ∧ (fs 1 6).map (·.hash) = [9, 6, 5, 4, 3, 2] := by decide

/-- Refutation witness for `Load` as it was (one fetch of length `amount`): of the 3 newest entries one
is foreign: 2 are kept although the log has 4; the loop asks for 6 and keeps all 4 -/
theorem one_fetch_kept_too_few :
    let e (h : Nat) (lg : Nat) : Entry := { hash := h, logId := lg, time := h, cid := 0, next := [] }
    let all : OMap := [e 5 1, e 4 7, e 3 1, e 2 1, e 1 1]      -- newest first; entry 4 belongs to log 7
    let fetchN : Nat → OMap := fun n => all.take n
    let good : Entry → Bool := fun x => x.logId == 1
    kept good (fetchN 3) = 2 ∧ loop fetchN good 3 6 3 = 6 ∧ kept good (fetchN 6) = 4 := by decide

end Orbit.Refetch
