import OrbitModel.Model.Refetch
/-!
# The refetch loop of `Load` ends, and ends with enough   (C15, F57)
-/
namespace Orbit.Refetch

theorem refused_le (good : Entry → Bool) (F : OMap) : refused good F ≤ F.length :=
  List.length_filter_le _ _

/-- the entries `Load` keeps of a fetch -/
def kept (good : Entry → Bool) (F : OMap) : Nat := (F.filter good).length

theorem kept_add_refused (good : Entry → Bool) (F : OMap) : kept good F + refused good F = F.length := by
  unfold kept refused
  induction F with
  | nil => rfl
  | cons e F ih =>
    simp only [List.filter_cons]
    cases hg : good e <;> simp [hg] <;> omega

/-- **the loop ends** — when the fetcher never returns more than it is asked for nor more than the `T`
entries there are, `T + 1` rounds are enough — **and ends on a fetch that either left nothing out, or
reached the whole log (it returned fewer entries than asked), or keeps at least `amount` entries** -/
theorem loop_done (fetchN : Nat → OMap) (good : Entry → Bool) (amount T : Nat)
    (hle : ∀ n, (fetchN n).length ≤ n) (hT : ∀ n, (fetchN n).length ≤ T) :
    ∀ fuel len, T + 1 ≤ fuel + len → done fetchN good amount (loop fetchN good amount fuel len) = true
  | 0, len, h => by
    -- asked for more than there is: the fetch comes back short
    unfold loop done
    have : (fetchN len).length < len := by have := hT len; omega
    simp [this]
  | fuel+1, len, h => by
    unfold loop
    by_cases hd : done fetchN good amount len = true
    · simp [hd]
    · simp only [hd, Bool.false_eq_true, if_false]
      apply loop_done fetchN good amount T hle hT fuel
      -- not done: the fetch was full, something was left out and too little kept: the next length is larger
      unfold done at hd
      simp only [Bool.or_eq_true, beq_iff_eq, decide_eq_true_eq, not_or, Nat.not_lt, Nat.not_le] at hd
      obtain ⟨⟨_, h2⟩, h3⟩ := hd
      have := hle len
      omega

/-- in the terms of the entries kept: at the end the fetch keeps at least `amount` entries, or it is
the whole log, or nothing was left out of it -/
theorem loop_keeps_enough (fetchN : Nat → OMap) (good : Entry → Bool) (amount T : Nat)
    (hle : ∀ n, (fetchN n).length ≤ n) (hT : ∀ n, (fetchN n).length ≤ T) (len : Nat) :
    kept good (fetchN (loop fetchN good amount (T + 1) len)) ≥ amount ∨
    (fetchN (loop fetchN good amount (T + 1) len)).length < loop fetchN good amount (T + 1) len ∨
    refused good (fetchN (loop fetchN good amount (T + 1) len)) = 0 := by
  have hd := loop_done fetchN good amount T hle hT (T + 1) len (by omega)
  generalize loop fetchN good amount (T + 1) len = n at hd ⊢
  unfold done at hd
  simp only [Bool.or_eq_true, beq_iff_eq, decide_eq_true_eq] at hd
  have hk := kept_add_refused good (fetchN n)
  have hr := refused_le good (fetchN n)
  rcases hd with (h | h) | h
  · exact Or.inr (Or.inr h)
  · exact Or.inr (Or.inl h)
  · left; omega

/-- Refutation witness for `Load` as it was (one fetch of length `amount`): of the 3 newest entries one
is foreign: 2 are kept although the log has 4; the loop asks for 4 and keeps 3 -/
theorem one_fetch_kept_too_few :
    let e (h : Nat) (lg : Nat) : Entry := { hash := h, logId := lg, time := h, cid := 0, next := [] }
    let all : OMap := [e 5 1, e 4 7, e 3 1, e 2 1, e 1 1]      -- newest first; entry 4 belongs to log 7
    let fetchN : Nat → OMap := fun n => all.take n
    let good : Entry → Bool := fun x => x.logId == 1
    kept good (fetchN 3) = 2 ∧ loop fetchN good 3 6 3 = 4 ∧ kept good (fetchN 4) = 3 := by decide

end Orbit.Refetch
