import OrbitModel.Spec.Replay
/-!
# Shared lemmas for the key-value and document index proofs

* `KV.get` after `KV.put` / `KV.erase`;
* a generic "write list" view: every entry contributes a list of atomic writes
  `(key, some v)` (put) / `(key, none)` (erase). The Go index scans the writes newest → oldest with
  a `handled` set (`wStep`), the specification replays them oldest → newest (`applyW`).
  Both are characterised by `firstW`: the first write to a key in a list of writes.
-/
namespace Orbit

/-! ### `KV.get` / `KV.put` / `KV.erase` -/

theorem KV.get_nil (k : String) : KV.get [] k = none := rfl

theorem KV.get_cons (p : String × String) (m : KV) (k : String) :
    KV.get (p :: m) k = if k = p.1 then some p.2 else KV.get m k := by
  unfold KV.get
  by_cases h : k = p.1
  · simp [h]
  · have h' : ¬ p.1 = k := fun e => h e.symm
    simp [h, h']

theorem KV.get_erase (m : KV) (k k' : String) :
    KV.get (KV.erase m k) k' = if k' = k then none else KV.get m k' := by
  induction m with
  | nil => simp [KV.erase, KV.get]
  | cons p ps ih =>
    have hc : KV.erase (p :: ps) k = if p.1 = k then KV.erase ps k else p :: KV.erase ps k := by
      unfold KV.erase
      by_cases hp : p.1 = k <;> simp [hp]
    rw [hc]
    by_cases hp : p.1 = k
    · rw [if_pos hp, ih, KV.get_cons]
      by_cases hk : k' = k
      · simp [hk]
      · have : ¬ k' = p.1 := by rw [hp]; exact hk
        simp [hk, this]
    · rw [if_neg hp, KV.get_cons, KV.get_cons, ih]
      by_cases hk : k' = k
      · subst hk
        have : ¬ k' = p.1 := fun e => hp e.symm
        simp [this]
      · simp [hk]

theorem KV.get_put (m : KV) (k v k' : String) :
    KV.get (KV.put m k v) k' = if k' = k then some v else KV.get m k' := by
  unfold KV.put
  rw [KV.get_cons, KV.get_erase]
  by_cases hk : k' = k <;> simp [hk]

theorem KV.equiv_refl (a : KV) : KV.equiv a a := fun _ => rfl
theorem KV.equiv_symm {a b : KV} (h : KV.equiv a b) : KV.equiv b a := fun k => (h k).symm
theorem KV.equiv_trans {a b c : KV} (h₁ : KV.equiv a b) (h₂ : KV.equiv b c) : KV.equiv a c :=
  fun k => (h₁ k).trans (h₂ k)

/-! ### Atomic writes -/

/-- an atomic write: `(k, some v)` stores `v` under `k`, `(k, none)` removes `k` -/
abbrev Wr := String × Option String

/-- replaying one write -/
def applyW (m : KV) (w : Wr) : KV :=
  match w.2 with
  | some v => KV.put m w.1 v
  | none => KV.erase m w.1

/-- the index loop on one write: skip handled keys, else mark and apply -/
def wStep (acc : List String × KV) (w : Wr) : List String × KV :=
  if acc.1.contains w.1 then acc else (w.1 :: acc.1, applyW acc.2 w)

/-- the first write to `k` in a list of writes (`none`: `k` is not written) -/
def firstW : List Wr → String → Option (Option String)
  | [], _ => none
  | w :: ws, k => if k = w.1 then some w.2 else firstW ws k

theorem KV.get_applyW (m : KV) (w : Wr) (k : String) :
    KV.get (applyW m w) k = if k = w.1 then w.2 else KV.get m k := by
  unfold applyW
  cases h : w.2 with
  | some v => simp only [KV.get_put]
  | none => simp only [KV.get_erase]

theorem firstW_append (a b : List Wr) (k : String) :
    firstW (a ++ b) k = (firstW a k).or (firstW b k) := by
  induction a with
  | nil => simp [firstW]
  | cons w ws ih =>
    simp only [List.cons_append, firstW]
    by_cases h : k = w.1
    · simp [h]
    · simp [h, ih]

theorem firstW_eq_none {ws : List Wr} {k : String} :
    firstW ws k = none ↔ k ∉ ws.map (·.1) := by
  induction ws with
  | nil => simp [firstW]
  | cons w ws ih =>
    simp only [firstW, List.map_cons, List.mem_cons, not_or]
    by_cases h : k = w.1
    · simp [h]
    · simp [h, ih]

theorem firstW_mem {ws : List Wr} {k : String} {x : Option String} (h : firstW ws k = some x) :
    (k, x) ∈ ws := by
  induction ws with
  | nil => simp [firstW] at h
  | cons w ws ih =>
    simp only [firstW] at h
    by_cases hk : k = w.1
    · rw [if_pos hk] at h
      have : w = (k, x) := by
        cases w; simp only [Option.some.injEq] at h; simp only at hk; rw [hk, h]
      rw [this]; exact List.mem_cons_self
    · rw [if_neg hk] at h
      exact List.mem_cons_of_mem _ (ih h)

/-- with unique keys, scanning a write list forwards or backwards finds the same write -/
theorem firstW_reverse {ws : List Wr} (hnd : (ws.map (·.1)).Nodup) (k : String) :
    firstW ws.reverse k = firstW ws k := by
  induction ws with
  | nil => rfl
  | cons w ws ih =>
    rw [List.map_cons, List.nodup_cons] at hnd
    rw [List.reverse_cons, firstW_append, ih hnd.2]
    simp only [firstW]
    by_cases h : k = w.1
    · have : firstW ws k = none := firstW_eq_none.mpr (h ▸ hnd.1)
      rw [this, if_pos h]; rfl
    · simp [h]

theorem firstW_flatMap_congr {α : Type} (f g : α → List Wr) (l : List α) (k : String)
    (h : ∀ e ∈ l, firstW (f e) k = firstW (g e) k) :
    firstW (l.flatMap f) k = firstW (l.flatMap g) k := by
  induction l with
  | nil => rfl
  | cons e es ih =>
    simp only [List.flatMap_cons, firstW_append]
    rw [h e List.mem_cons_self, ih (fun x hx => h x (List.mem_cons_of_mem _ hx))]

/-- replay (as a `foldr`, newest write first): the first write decides -/
theorem get_foldr_applyW (ws : List Wr) (m : KV) (k : String) :
    KV.get (ws.foldr (fun w m => applyW m w) m) k = (firstW ws k).getD (KV.get m k) := by
  induction ws with
  | nil => rfl
  | cons w ws ih =>
    simp only [List.foldr_cons, KV.get_applyW, firstW]
    by_cases h : k = w.1
    · simp [h]
    · simp [h, ih]

/-- replay oldest → newest: the last write decides -/
theorem get_foldl_applyW (ws : List Wr) (m : KV) (k : String) :
    KV.get (ws.foldl applyW m) k = (firstW ws.reverse k).getD (KV.get m k) := by
  rw [List.foldl_eq_foldr_reverse, get_foldr_applyW]

/-- the `handled`-set scan: keys already handled are untouched, the first write decides the rest -/
theorem get_foldl_wStep (ws : List Wr) (h : List String) (m : KV) (k : String) :
    KV.get (ws.foldl wStep (h, m)).2 k
      = if k ∈ h then KV.get m k else (firstW ws k).getD (KV.get m k) := by
  induction ws generalizing h m with
  | nil => simp [firstW]
  | cons w ws ih =>
    rw [List.foldl_cons]
    by_cases hc : w.1 ∈ h
    · have : h.contains w.1 = true := List.contains_iff_mem.mpr hc
      have hs : wStep (h, m) w = (h, m) := by simp only [wStep, this, if_true]
      rw [hs, ih]
      by_cases hk : k ∈ h
      · simp [hk]
      · have : ¬ k = w.1 := fun e => hk (e ▸ hc)
        simp [hk, firstW, this]
    · have : h.contains w.1 = false := by
        rw [← Bool.not_eq_true, List.contains_iff_mem]; exact hc
      have hs : wStep (h, m) w = (w.1 :: h, applyW m w) := by
        simp only [wStep, this, Bool.false_eq_true, if_false]
      rw [hs, ih, KV.get_applyW]
      by_cases hk : k = w.1
      · subst hk
        simp [hc, firstW]
      · simp [hk, firstW, List.mem_cons]

end Orbit
