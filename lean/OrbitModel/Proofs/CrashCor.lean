import OrbitModel.Proofs.Crash
import OrbitModel.Proofs.JoinClosed
import OrbitModel.Proofs.JoinSingle
/-!
# Corollaries of `crash_recovers`   (C05)

* `batchOk_of_input`, `ValidHist.merged_of_input`: the result-level hypotheses of `ValidHist.merged`
  (`BatchOk.parents`, "all reported entries are in the log") follow from hypotheses on the *input*
  of `replicationLoadComplete`: each log brings its parents and its heads cover it.
* `ValidHist.merged_of_singles`: the same for the batches of the current replicator (one log per
  fetched entry), when the batch is parent-closed among acceptable entries.
* `crash_recovers_values`: `Values()` of the recovered log is `Values()` of the pre-crash log
  restricted to the recovered hashes.
-/
namespace Orbit

theorem batchOk_of_input {acl : Acl} {U : List Entry} (hU : HashDet U) (hM : ClockMono U) {id : Nat}
    {T : List Eff} {L : Log} {logs : List (OMap × OMap)} (hI : HistInv U id T L)
    (hB : BatchHonest U L.id logs) (hF : ∀ p ∈ logs, ∀ e ∈ p.1, Eff.block e.hash ∈ T)
    (hP : BatchParents L logs) :
    BatchOk U T L logs (joinAll acl L logs) ∧
    (BatchCovered logs → ∀ e ∈ joinedEntries acl L logs, e ∈ (joinAll acl L logs).entries) := by
  obtain ⟨h1, h2⟩ := joinAll_closed (acl := acl) hU hM logs L hI.good hI.closed hB hP
  exact ⟨⟨hB, hF, fun _ _ e _ he n hn => h1 e he n hn⟩, h2⟩

/-- `ValidHist.merged` from hypotheses on the batch alone: every log brings its own parents and is
covered by its heads (whichever logs are then rejected) -/
theorem ValidHist.merged_of_input {acl : Acl} {U : List Entry} (hU : HashDet U) (hM : ClockMono U)
    {id : Nat} {ops : List SOp} {L : Log} (logs : List (OMap × OMap)) (hv : ValidHist acl U id ops L)
    (hB : BatchHonest U L.id logs) (hF : ∀ p ∈ logs, ∀ e ∈ p.1, Eff.block e.hash ∈ trace ops)
    (hP : BatchParents L logs) (hcov : BatchCovered logs) :
    ValidHist acl U id
      (ops ++ [.merged (joinedEntries acl L logs) ((sortedHeads (joinAll acl L logs)).map (·.hash))])
      (joinAll acl L logs) := by
  obtain ⟨h1, h2⟩ := batchOk_of_input (acl := acl) hU hM (valid_inv hU hM hv).1 hB hF hP
  exact ValidHist.merged logs _ hv h1 rfl (h2 hcov)

/-- `ValidHist.merged` for a batch of single-entry logs (what the replicator delivers) that is
parent-closed among acceptable entries: no accepted child of a rejected parent -/
theorem ValidHist.merged_of_singles {acl : Acl} {U : List Entry} (hU : HashDet U) (hM : ClockMono U)
    {id : Nat} {ops : List SOp} {L : Log} (logs : List (OMap × OMap)) (hv : ValidHist acl U id ops L)
    (hB : BatchHonest U L.id logs) (hF : ∀ p ∈ logs, ∀ e ∈ p.1, Eff.block e.hash ∈ trace ops)
    (hS : Singles logs) (hP : BatchParentsAcc acl L logs) :
    ValidHist acl U id
      (ops ++ [.merged (joinedEntries acl L logs) ((sortedHeads (joinAll acl L logs)).map (·.hash))])
      (joinAll acl L logs) := by
  have hI := (valid_inv hU hM hv).1
  have hC := joinAll_singles_closed hU hM hI.good hI.closed hB hS hP
  exact ValidHist.merged logs _ hv ⟨hB, hF, fun _ _ e _ he n hn => hC e he n hn⟩ rfl
    (joinedEntries_singles hU hM logs L hI.good hB hS)

/-- `Values()` of a good part of a good log is `Values()` of the whole, filtered -/
theorem values_restrict {U : List Entry} (hU : HashDet U) (hT : TieFree U) (hM : ClockMono U)
    {D L : Log} (hD : Good U D) (hL : Good U L) (hsub : ∀ e ∈ D.entries, e ∈ L.entries) :
    values D = (values L).filter (fun e => has D.entries e.hash) := by
  obtain ⟨s1, m1⟩ := values_sorted hU hT hM D hD.inv hD.nodup
  obtain ⟨s2, m2⟩ := values_sorted hU hT hM L hL.inv hL.nodup
  apply sorted_lt_unique s1 (s2.filter _)
  intro x
  rw [m1, List.mem_filter, m2]
  constructor
  · exact fun hx => ⟨hsub x hx, (has_iff _ _).mpr ⟨x, hx, rfl⟩⟩
  · rintro ⟨hx, hh⟩
    obtain ⟨y, hy, hyx⟩ := (has_iff _ _).mp hh
    exact (hU y (hD.inv.sub y hy) x (hL.inv.sub x hx) hyx) ▸ hy

/-- the durable part `D` of the pre-crash log that recovery returns, with its listing -/
theorem crash_recovers_part {acl : Acl} {U : List Entry} (hU : HashDet U) (hT : TieFree U)
    (hM : ClockMono U) {id : Nat} {ops : List SOp} {L : Log} (hvalid : ValidHist acl U id ops L)
    (p : List Eff) (hp : p <+: trace ops) :
    ∃ D, Good U D ∧ Closed D ∧ (∀ e ∈ D.entries, e ∈ L.entries) ∧
      (∀ h, h ∈ recover U (diskOf p) ↔ has D.entries h = true) ∧
      values D = (values L).filter (fun e => (recover U (diskOf p)).contains e.hash) := by
  obtain ⟨D, hG, hC, hDL, hR⟩ := (crash_recovers hU hM hvalid p hp).2.2.2.2
  refine ⟨D, hG, hC, hDL, hR, ?_⟩
  rw [values_restrict hU hT hM hG (valid_inv hU hM hvalid).1.good hDL]
  apply List.filter_congr
  intro x _
  cases hh : has D.entries x.hash
  · cases hc : (recover U (diskOf p)).contains x.hash
    · rfl
    · rw [(hR x.hash).mp (by simpa using hc)] at hh; cases hh
  · exact ((List.contains_iff_mem ..).mpr ((hR x.hash).mpr hh)).symm

/-- **C05, last clause.** The recovered hashes are the entries of a good log whose `Values()` is the
pre-crash `Values()` restricted to the recovered hashes. (By `values_unique`, every good log with
that entry set — in particular the one `Load` rebuilds — lists them identically.) -/
theorem crash_recovers_values {acl : Acl} {U : List Entry} (hU : HashDet U) (hT : TieFree U)
    (hM : ClockMono U) {id : Nat} {ops : List SOp} {L : Log} (hvalid : ValidHist acl U id ops L)
    (p : List Eff) (hp : p <+: trace ops) :
    ∃ D, Good U D ∧ (∀ h, h ∈ recover U (diskOf p) ↔ has D.entries h = true) ∧
      values D = (values L).filter (fun e => (recover U (diskOf p)).contains e.hash) := by
  obtain ⟨D, hG, _, _, hR, hV⟩ := crash_recovers_part hU hT hM hvalid p hp
  exact ⟨D, hG, hR, hV⟩

end Orbit
