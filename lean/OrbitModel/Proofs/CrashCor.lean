import OrbitModel.Proofs.Crash
import OrbitModel.Proofs.JoinClosed
/-!
# Corollaries of `crash_recovers`   (C05)

* `batchOk_of_input`, `ValidHist.merged_of_input`: the result-level hypotheses of `ValidHist.merged`
  (`BatchOk.parents`, "all reported entries are in the log") follow from hypotheses on the *input*
  of `replicationLoadComplete`: the batch brings its parents and the heads of each log cover it.
* `crash_recovers_values`: `Values()` of the recovered log is `Values()` of the pre-crash log
  restricted to the recovered hashes.
-/
namespace Orbit

theorem batchOk_of_input {acl : Acl} {U : List Entry} (hU : HashDet U) (hM : ClockMono U) {id : Nat}
    {T : List Eff} {L : Log} {logs : List (OMap × OMap)} (hI : HistInv U id T L)
    (hB : BatchHonest U L.id logs) (hF : ∀ p ∈ logs, ∀ e ∈ p.1, Eff.block e.hash ∈ T)
    (hP : BatchParents L logs) :
    BatchOk U T L logs (joinAllPinned acl L logs).1 ∧
    ((joinAllPinned acl L logs).2 = true → BatchCovered logs →
      ∀ p ∈ logs, ∀ e ∈ p.1, e ∈ (joinAllPinned acl L logs).1.entries) := by
  obtain ⟨h1, h2⟩ := joinAll_closed (acl := acl) hU hM logs L hI.good hI.closed hB hP
  exact ⟨⟨hB, hF, fun _ _ e _ he n hn => h1 e he n hn⟩, h2⟩

/-- `ValidHist.merged` from hypotheses on the batch alone -/
theorem ValidHist.merged_of_input {acl : Acl} {U : List Entry} (hU : HashDet U) (hM : ClockMono U)
    {id : Nat} {ops : List SOp} {L : Log} (logs : List (OMap × OMap)) (hv : ValidHist acl U id ops L)
    (hB : BatchHonest U L.id logs) (hF : ∀ p ∈ logs, ∀ e ∈ p.1, Eff.block e.hash ∈ trace ops)
    (hP : BatchParents L logs) (hcov : BatchCovered logs) (hok : (joinAllPinned acl L logs).2 = true) :
    ValidHist acl U id
      (ops ++ [.merged (logs.flatMap (·.1)) ((sortedHeads (joinAllPinned acl L logs).1).map (·.hash))])
      (joinAllPinned acl L logs).1 := by
  obtain ⟨h1, h2⟩ := batchOk_of_input (acl := acl) hU hM (valid_inv hU hM hv).1 hB hF hP
  exact ValidHist.merged logs _ hv h1 (Prod.ext rfl hok) (h2 hok hcov)

/-- `ValidHist.aborted` from hypotheses on the batch alone -/
theorem ValidHist.aborted_of_input {acl : Acl} {U : List Entry} (hU : HashDet U) (hM : ClockMono U)
    {id : Nat} {ops : List SOp} {L : Log} (logs : List (OMap × OMap)) (hv : ValidHist acl U id ops L)
    (hB : BatchHonest U L.id logs) (hF : ∀ p ∈ logs, ∀ e ∈ p.1, Eff.block e.hash ∈ trace ops)
    (hP : BatchParents L logs) (hok : (joinAllPinned acl L logs).2 = false) :
    ValidHist acl U id ops (joinAllPinned acl L logs).1 :=
  ValidHist.aborted logs _ hv (batchOk_of_input (acl := acl) hU hM (valid_inv hU hM hv).1 hB hF hP).1
    (Prod.ext rfl hok)

/-- `Values()` of a good part of a good log is `Values()` of the whole, filtered -/
theorem values_restrict {U : List Entry} (hU : HashDet U) (hT : TieFree U) (hM : ClockMono U)
    {D L : Log} (hD : Good U D) (hL : Good U L) (hsub : ∀ e ∈ D.entries, e ∈ L.entries) :
    values D = (values L).filter (fun e => has D.entries e.hash) := by
  obtain ⟨s1, m1⟩ := values_sorted hU hT hM D hD.inv hD.nodup
  obtain ⟨s2, m2⟩ := values_sorted hU hT hM L hL.inv hL.nodup
  apply sorted_lt_unique s1 (s2.filter _)
  intro x
  rw [m1, List.mem_filter, m2]
  constructor
  · exact fun hx => ⟨hsub x hx, (has_iff _ _).mpr ⟨x, hx, rfl⟩⟩
  · rintro ⟨hx, hh⟩
    obtain ⟨y, hy, hyx⟩ := (has_iff _ _).mp hh
    exact (hU y (hD.inv.sub y hy) x (hL.inv.sub x hx) hyx) ▸ hy

/-- **C05, last clause.** The recovered hashes are the entries of a good log whose `Values()` is the
pre-crash `Values()` restricted to the recovered hashes. (By `values_unique`, every good log with
that entry set — in particular the one `Load` rebuilds — lists them identically.) -/
theorem crash_recovers_values {acl : Acl} {U : List Entry} (hU : HashDet U) (hT : TieFree U)
    (hM : ClockMono U) {id : Nat} {ops : List SOp} {L : Log} (hvalid : ValidHist acl U id ops L)
    (p : List Eff) (hp : p <+: trace ops) :
    ∃ D, Good U D ∧ (∀ h, h ∈ recover U (diskOf p) ↔ has D.entries h = true) ∧
      values D = (values L).filter (fun e => (recover U (diskOf p)).contains e.hash) := by
  obtain ⟨D, hG, _, hDL, hR⟩ := (crash_recovers hU hM hvalid p hp).2.2.2.2
  refine ⟨D, hG, hR, ?_⟩
  rw [values_restrict hU hT hM hG (valid_inv hU hM hvalid).1.good hDL]
  apply List.filter_congr
  intro x _
  cases hh : has D.entries x.hash
  · cases hc : (recover U (diskOf p)).contains x.hash
    · rfl
    · rw [(hR x.hash).mp (by simpa using hc)] at hh; cases hh
  · exact ((List.contains_iff_mem ..).mpr ((hR x.hash).mpr hh)).symm

end Orbit
