import OrbitModel.Model.Log
/-!
# Ordered-map lemmas (`has`, `get`, `set`, `merge`, `nexts`, `findHeads`) and `HashDet`
-/
namespace Orbit

theorem has_iff (m : OMap) (h : Nat) : has m h = true ↔ ∃ e ∈ m, e.hash = h := by
  simp [has, List.any_eq_true]

theorem has_false_iff (m : OMap) (h : Nat) : has m h = false ↔ ∀ e ∈ m, e.hash ≠ h := by
  rw [← Bool.not_eq_true, has_iff]; simp

theorem get_some {m : OMap} {h : Nat} {e : Entry} (hg : get m h = some e) : e ∈ m ∧ e.hash = h := by
  unfold get at hg
  exact ⟨List.mem_of_find?_eq_some hg, by simpa using List.find?_some hg⟩

theorem get_isSome_of_mem {m : OMap} {e : Entry} (he : e ∈ m) : ∃ e', get m e.hash = some e' := by
  unfold get
  cases hf : m.find? (fun x => x.hash == e.hash) with
  | some e' => exact ⟨e', rfl⟩
  | none =>
    have := List.find?_eq_none.mp hf e he
    simp at this

theorem mem_set (m : OMap) (e x : Entry) : x ∈ set m e ↔ x ∈ m ∨ (x = e ∧ has m e.hash = false) := by
  unfold set
  cases hh : has m e.hash <;> simp

theorem mem_nexts (m : OMap) (h : Nat) : h ∈ nexts m ↔ ∃ e ∈ m, h ∈ e.next := by
  simp [nexts, List.mem_flatMap]

theorem mem_merge_of_left (a b : OMap) (x : Entry) (hx : x ∈ a) : x ∈ merge a b := by
  unfold merge
  induction b generalizing a with
  | nil => simpa
  | cons y ys ih => exact ih (set a y) ((mem_set a y x).mpr (Or.inl hx))

theorem mem_merge (a b : OMap) (x : Entry) (hx : x ∈ merge a b) : x ∈ a ∨ x ∈ b := by
  unfold merge at hx
  induction b generalizing a with
  | nil => left; simpa using hx
  | cons y ys ih =>
    rcases ih (set a y) hx with h | h
    · rcases (mem_set a y x).mp h with h | ⟨rfl, _⟩
      · exact Or.inl h
      · exact Or.inr List.mem_cons_self
    · exact Or.inr (List.mem_cons_of_mem _ h)

/-- an element of the right map is represented in the merge by an element of the same hash -/
theorem merge_has_right (a b : OMap) (x : Entry) (hx : x ∈ b) : ∃ y ∈ merge a b, y.hash = x.hash := by
  unfold merge
  induction b generalizing a with
  | nil => simp at hx
  | cons z zs ih =>
    rcases List.mem_cons.mp hx with rfl | hx
    · show ∃ y ∈ List.foldl set (set a x) zs, y.hash = x.hash
      cases hh : has a x.hash
      · have : x ∈ set a x := (mem_set a x x).mpr (Or.inr ⟨rfl, hh⟩)
        exact ⟨x, mem_merge_of_left _ zs x this, rfl⟩
      · obtain ⟨y, hy, hyh⟩ := (has_iff a x.hash).mp hh
        exact ⟨y, mem_merge_of_left _ zs y ((mem_set a x y).mpr (Or.inl hy)), hyh⟩
    · exact ih (set a z) hx

/-- hash determinism: within the universe, the hash names the entry -/
def HashDet (U : List Entry) : Prop := ∀ e ∈ U, ∀ e' ∈ U, e.hash = e'.hash → e = e'

theorem hashDet_sub {U : List Entry} (hU : HashDet U) {A : OMap} (h : ∀ e ∈ A, e ∈ U) : HashDet A :=
  fun e he e' he' hh => hU e (h e he) e' (h e' he') hh

theorem mem_merge_of_right {U : List Entry} (hU : HashDet U) (a b : OMap)
    (ha : ∀ e ∈ a, e ∈ U) (hb : ∀ e ∈ b, e ∈ U) (x : Entry) (hx : x ∈ b) : x ∈ merge a b := by
  obtain ⟨y, hy, hyh⟩ := merge_has_right a b x hx
  have hyU : y ∈ U := by
    rcases mem_merge a b y hy with h | h
    · exact ha y h
    · exact hb y h
  have := hU y hyU x (hb x hx) hyh
  exact this ▸ hy

theorem mem_merge_iff {U : List Entry} (hU : HashDet U) (a b : OMap)
    (ha : ∀ e ∈ a, e ∈ U) (hb : ∀ e ∈ b, e ∈ U) (x : Entry) : x ∈ merge a b ↔ x ∈ a ∨ x ∈ b :=
  ⟨mem_merge a b x, fun h => h.elim (mem_merge_of_left a b x) (mem_merge_of_right hU a b ha hb x)⟩

theorem mem_findHeads (m : OMap) (e : Entry) : e ∈ findHeads m ↔ e ∈ m ∧ e.hash ∉ nexts m := by
  simp [findHeads, List.mem_filter]

/-- with hash determinism, `get` finds exactly the member -/
theorem get_of_mem {U : List Entry} (hU : HashDet U) {m : OMap} (hm : ∀ e ∈ m, e ∈ U)
    {e : Entry} (he : e ∈ m) : get m e.hash = some e := by
  obtain ⟨e', hg⟩ := get_isSome_of_mem he
  obtain ⟨h1, h2⟩ := get_some hg
  rw [hg, hU e' (hm e' h1) e (hm e he) h2]

/-! ### `Nodup` is kept by `set` and `merge` (no hypothesis on hashes needed) -/

theorem nodup_set {m : OMap} (e : Entry) (h : m.Nodup) : (set m e).Nodup := by
  unfold set
  cases hh : has m e.hash
  · simp only [Bool.false_eq_true, if_false]
    apply List.nodup_append.mpr
    refine ⟨h, by simp, ?_⟩
    intro a ha b hb
    simp only [List.mem_singleton] at hb
    subst hb
    intro hab; subst hab
    exact (has_false_iff m a.hash).mp hh a ha rfl
  · simpa using h

theorem nodup_merge {a : OMap} (b : OMap) (h : a.Nodup) : (merge a b).Nodup := by
  unfold merge
  induction b generalizing a with
  | nil => simpa using h
  | cons y ys ih => exact ih (nodup_set y h)

end Orbit
