import OrbitModel.Proofs.ReplC11
import OrbitModel.Proofs.ReplExamples
/-!
# Replicator: the hypotheses of C10/C11 are satisfiable (the theorems instantiated on `Ex.net0`)
-/
namespace Orbit.Repl.Ex

def U0 : List Nat := [1, 2, 3, 4, 8, 9]

theorem closed_U0 : Closed net0 U0 := by unfold Closed; decide

/-- `C11_two_requests` on the history of `one_load_not_enough`: the second request (no heads at
all) completes the first one. -/
theorem c11_instance :
    let s := run net0 { sem := 2 } [.load 1 [3], .acquire 0, .fetched 0, .finish 0, .cancel 1]
    let s1 := drain net0 200 (step net0 s (.load 2 [3]))
    let s2 := drain net0 20 (step net0 s1 (.load 3 []))
    quiescent s2 = true ∧ s2.failed = [] ∧ ∀ x, ReachV net0 [3] x → x ∈ s2.log := by
  have h := C11_two_requests (net := net0) (c := 2) (U := U0) (by decide) closed_U0
    [.load 1 [3], .acquire 0, .fetched 0, .finish 0, .cancel 1] (actsIn_of_all (by decide))
    2 [3] (by decide) 3 [] (by decide) 200 20 (by decide) (by decide) (by decide)
  obtain ⟨_, _, h3, h4, h5, _⟩ := h
  exact ⟨h3, h4, fun x hx => h5 x (by simpa using hx)⟩

/-- `C10_rejected_never_block` after a mixed announcement processed in an arbitrary order -/
theorem c10_instance :
    let s := run net0 { sem := 2 } [.load 1 [9, 8, 3], .acquire 2, .acquire 0, .fetched 2, .fetched 0, .finish 2]
    ∀ x, ReachV net0 [9, 3, 8] x → x ∈ (drain net0 100 (step net0 s (.load 2 [9, 3, 8]))).log := by
  have h := C10_rejected_never_block (net := net0) (c := 2) (U := U0) (by decide) closed_U0
    [.load 1 [9, 8, 3], .acquire 2, .acquire 0, .fetched 2, .fetched 0, .finish 2]
    (actsIn_of_all (by decide)) (noCancel_of_all (by decide))
    2 [9, 3, 8] (by decide) 100 (by decide)
  exact h.2.1

theorem reachV_3 : ReachV net0 [9, 3, 8] 1 :=
  .link (h := 2) (.link (h := 3) (.head (by decide) rfl rfl) (by decide) rfl rfl) (by decide) rfl rfl

end Orbit.Repl.Ex
