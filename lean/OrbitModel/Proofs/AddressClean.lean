import OrbitModel.Model.Path
/-!
# `path.Clean` on segment lists: when does a name stay below the manifest root?   (C14)

`cleanAbs` interprets `""`, `"."` (skip) and `".."` (pop) segment by segment. A name joined below
`/orbitdb/<h>` keeps the prefix `["orbitdb", h]` iff its `..` never outnumber the plain segments
before them (`staysBelow`). Otherwise the root `h` is erased: the cleaned path does not depend on
`h` at all (`clean_escape`), it is whatever the rest of the name spells below `/orbitdb`.
-/
namespace Orbit.Path

/-- a segment `path.Clean` keeps as it is -/
def Plain (s : String) : Prop := s ≠ "" ∧ s ≠ "." ∧ s ≠ ".."

instance (s : String) : Decidable (Plain s) := by unfold Plain; exact inferInstance

theorem cleanStep_skip {st : List String} {s : String} (h : s = "" ∨ s = ".") : cleanStep st s = st := by
  rcases h with rfl | rfl <;> rfl

theorem cleanStep_up (st : List String) : cleanStep st ".." = st.dropLast := by
  simp [cleanStep]

theorem cleanStep_plain {st : List String} {s : String} (h : Plain s) : cleanStep st s = st ++ [s] := by
  obtain ⟨h1, h2, h3⟩ := h
  simp [cleanStep, h1, h2, h3]

/-- the three cases of `cleanStep` -/
theorem seg_cases (s : String) : (s = "" ∨ s = ".") ∨ s = ".." ∨ Plain s := by
  unfold Plain
  by_cases h1 : s = ""
  · exact Or.inl (Or.inl h1)
  by_cases h2 : s = "."
  · exact Or.inl (Or.inr h2)
  by_cases h3 : s = ".."
  · exact Or.inr (Or.inl h3)
  · exact Or.inr (Or.inr ⟨h1, h2, h3⟩)

theorem foldl_cleanStep_plain (st l : List String) (h : ∀ x ∈ l, Plain x) :
    l.foldl cleanStep st = st ++ l := by
  induction l generalizing st with
  | nil => simp
  | cons x xs ih =>
    rw [List.foldl_cons, cleanStep_plain (h x List.mem_cons_self),
      ih _ (fun y hy => h y (List.mem_cons_of_mem _ hy))]
    simp

/-- a list of plain segments is already clean -/
theorem cleanAbs_plain (l : List String) (h : ∀ x ∈ l, Plain x) : cleanAbs l = l := by
  unfold cleanAbs; rw [foldl_cleanStep_plain [] l h]; rfl

theorem cleanAbs_append (a b : List String) : cleanAbs (a ++ b) = b.foldl cleanStep (cleanAbs a) := by
  unfold cleanAbs; rw [List.foldl_append]

/-- the result of `path.Clean` only has plain segments, all taken from the input -/
theorem foldl_cleanStep_mem (l st : List String) :
    ∀ x ∈ l.foldl cleanStep st, x ∈ st ∨ (x ∈ l ∧ Plain x) := by
  induction l generalizing st with
  | nil => intro x hx; exact Or.inl hx
  | cons s rest ih =>
    intro x hx
    rw [List.foldl_cons] at hx
    rcases ih _ x hx with h | ⟨h1, h2⟩
    · rcases seg_cases s with hs | rfl | hs
      · rw [cleanStep_skip hs] at h; exact Or.inl h
      · rw [cleanStep_up] at h; exact Or.inl (List.dropLast_subset _ h)
      · rw [cleanStep_plain hs] at h
        rcases List.mem_append.mp h with h | h
        · exact Or.inl h
        · rw [List.mem_singleton] at h; subst h
          exact Or.inr ⟨List.mem_cons_self, hs⟩
    · exact Or.inr ⟨List.mem_cons_of_mem _ h1, h2⟩

theorem cleanAbs_mem (l : List String) : ∀ x ∈ cleanAbs l, x ∈ l ∧ Plain x := by
  intro x hx
  rcases foldl_cleanStep_mem l [] x hx with h | h
  · cases h
  · exact h

/-- scan of a relative name with a depth counter: `""`/`"."` keep the depth, `".."` needs a
positive depth and decrements it, anything else increments it -/
def staysBelowFrom : Nat → List String → Bool
  | _, [] => true
  | d, s :: rest =>
    if s == "" || s == "." then staysBelowFrom d rest
    else if s == ".." then (if d = 0 then false else staysBelowFrom (d - 1) rest)
    else staysBelowFrom (d + 1) rest

/-- the name never climbs above the directory it is joined to -/
def staysBelow (segs : List String) : Bool := staysBelowFrom 0 segs

theorem staysBelowFrom_skip {s : String} (h : s = "" ∨ s = ".") (d : Nat) (rest : List String) :
    staysBelowFrom d (s :: rest) = staysBelowFrom d rest := by
  rcases h with rfl | rfl <;> rfl

theorem staysBelowFrom_up (d : Nat) (rest : List String) :
    staysBelowFrom d (".." :: rest) = if d = 0 then false else staysBelowFrom (d - 1) rest := by
  simp [staysBelowFrom]

theorem staysBelowFrom_plain {s : String} (h : Plain s) (d : Nat) (rest : List String) :
    staysBelowFrom d (s :: rest) = staysBelowFrom (d + 1) rest := by
  obtain ⟨h1, h2, h3⟩ := h
  simp [staysBelowFrom, h1, h2, h3]

theorem dropLast_append_of_ne_nil' (base : List String) {st : List String} (h : st ≠ []) :
    (base ++ st).dropLast = base ++ st.dropLast := List.dropLast_append_of_ne_nil h

/-- **staying below**: cleaning under a base directory commutes with the base -/
theorem foldl_cleanStep_base (base : List String) (segs st : List String)
    (h : staysBelowFrom st.length segs = true) :
    segs.foldl cleanStep (base ++ st) = base ++ segs.foldl cleanStep st := by
  induction segs generalizing st with
  | nil => rfl
  | cons s rest ih =>
    simp only [List.foldl_cons]
    rcases seg_cases s with hs | rfl | hs
    · rw [staysBelowFrom_skip hs] at h
      rw [cleanStep_skip hs, cleanStep_skip hs]; exact ih st h
    · rw [staysBelowFrom_up] at h
      by_cases hd : st.length = 0
      · simp [hd] at h
      · simp only [hd, if_false] at h
        have hne : st ≠ [] := fun e => hd (by rw [e]; rfl)
        rw [cleanStep_up, cleanStep_up, dropLast_append_of_ne_nil' base hne]
        exact ih st.dropLast (by rw [List.length_dropLast]; exact h)
    · rw [staysBelowFrom_plain hs] at h
      rw [cleanStep_plain hs, cleanStep_plain hs, List.append_assoc]
      exact ih (st ++ [s]) (by rw [List.length_append]; exact h)

/-- **escaping**: the name splits at the first `..` that climbs above the base; what is cleaned is
the base without its last segment, followed by the rest of the name -/
theorem foldl_cleanStep_escape (segs st : List String) (h : staysBelowFrom st.length segs = false) :
    ∃ pre post, segs = pre ++ ".." :: post ∧
      ∀ base, segs.foldl cleanStep (base ++ st) = post.foldl cleanStep base.dropLast := by
  induction segs generalizing st with
  | nil => simp [staysBelowFrom] at h
  | cons s rest ih =>
    rcases seg_cases s with hs | rfl | hs
    · rw [staysBelowFrom_skip hs] at h
      obtain ⟨pre, post, he, hf⟩ := ih st h
      refine ⟨s :: pre, post, by rw [he]; rfl, fun base => ?_⟩
      rw [List.foldl_cons, cleanStep_skip hs]; exact hf base
    · rw [staysBelowFrom_up] at h
      by_cases hd : st.length = 0
      · have : st = [] := List.eq_nil_of_length_eq_zero hd
        subst this
        refine ⟨[], rest, rfl, fun base => ?_⟩
        rw [List.foldl_cons, cleanStep_up, List.append_nil]
      · simp only [hd, if_false] at h
        have hne : st ≠ [] := fun e => hd (by rw [e]; rfl)
        obtain ⟨pre, post, he, hf⟩ := ih st.dropLast (by rw [List.length_dropLast]; exact h)
        refine ⟨".." :: pre, post, by rw [he]; rfl, fun base => ?_⟩
        rw [List.foldl_cons, cleanStep_up, dropLast_append_of_ne_nil' base hne]; exact hf base
    · rw [staysBelowFrom_plain hs] at h
      obtain ⟨pre, post, he, hf⟩ := ih (st ++ [s]) (by rw [List.length_append]; exact h)
      refine ⟨s :: pre, post, by rw [he]; rfl, fun base => ?_⟩
      rw [List.foldl_cons, cleanStep_plain hs, List.append_assoc]; exact hf base

/-- cleaning below `/orbitdb/<h>` starts from the stack `["orbitdb", h]` -/
theorem cleanAbs_root {h : String} (hh : Plain h) (segs : List String) :
    cleanAbs (["orbitdb", h] ++ segs) = segs.foldl cleanStep ["orbitdb", h] := by
  rw [cleanAbs_append, cleanAbs_plain]
  intro x hx
  simp only [List.mem_cons, List.not_mem_nil, or_false] at hx
  rcases hx with rfl | rfl
  · decide
  · exact hh

/-- **a name that stays below keeps the manifest root**, and the rest is the cleaned name -/
theorem clean_below {h : String} (hh : Plain h) (segs : List String) (hs : staysBelow segs = true) :
    cleanAbs (["orbitdb", h] ++ segs) = ["orbitdb", h] ++ cleanAbs segs := by
  rw [cleanAbs_root hh]
  have := foldl_cleanStep_base ["orbitdb", h] segs [] hs
  rw [List.append_nil] at this
  exact this

/-- **a name that climbs above loses the manifest root**: it is `pre ++ ".." :: post` and the
cleaned path is `post` cleaned below `/orbitdb` — `h` plays no part in it -/
theorem clean_escape_exact {h : String} (hh : Plain h) (segs : List String)
    (hs : staysBelow segs = false) :
    ∃ pre post, segs = pre ++ ".." :: post ∧
      cleanAbs (["orbitdb", h] ++ segs) = cleanAbs ("orbitdb" :: post) := by
  obtain ⟨pre, post, he, hf⟩ := foldl_cleanStep_escape segs [] hs
  refine ⟨pre, post, he, ?_⟩
  rw [cleanAbs_root hh]
  have := hf ["orbitdb", h]
  rw [List.append_nil] at this
  rw [this]
  rfl

/-- so the cleaned path is the same whatever manifest the name was hashed into -/
theorem clean_escape {h h' : String} (hh : Plain h) (hh' : Plain h') (segs : List String)
    (hs : staysBelow segs = false) :
    cleanAbs (["orbitdb", h] ++ segs) = cleanAbs (["orbitdb", h'] ++ segs) := by
  obtain ⟨pre, post, he, hf⟩ := foldl_cleanStep_escape segs [] hs
  rw [cleanAbs_root hh, cleanAbs_root hh']
  have h1 := hf ["orbitdb", h]
  have h2 := hf ["orbitdb", h']
  rw [List.append_nil] at h1 h2
  rw [h1, h2]; rfl

/-- the escaping name may re-enter the same root (`../<h>/x`): then, and only then, the fixed
`DetermineAddress` still answers, with the root it was asked for -/
example : staysBelow ["..", "@H", "x"] = false ∧
    cleanAbs (["orbitdb", "@H"] ++ ["..", "@H", "x"]) = ["orbitdb", "@H", "x"] ∧
    cleanAbs (["orbitdb", "@H"] ++ ["..", "@V", "x"]) = ["orbitdb", "@V", "x"] := by decide

example : staysBelow ["a", "", "..", ".", "b", "c", ".."] = true ∧
    cleanAbs (["orbitdb", "@H"] ++ ["a", "", "..", ".", "b", "c", ".."]) = ["orbitdb", "@H", "b"] := by
  decide

end Orbit.Path
