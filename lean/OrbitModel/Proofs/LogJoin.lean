import OrbitModel.Proofs.LogDiff
/-!
# `joinCore` / `join` preserve the heads invariant

`Inv U L`: entries are drawn from the universe `U`, the heads are exactly the unreferenced members,
the `Next` index is exactly the set of referenced hashes, and the heads map has no duplicates.
-/
namespace Orbit

/-- heads are exactly the unreferenced members; the Next index is exactly the referenced hashes -/
structure Inv (U : List Entry) (L : Log) : Prop where
  sub    : ∀ e ∈ L.entries, e ∈ U
  heads  : ∀ e, e ∈ L.heads ↔ (e ∈ L.entries ∧ e.hash ∉ nexts L.entries)
  nidx   : ∀ h, h ∈ L.nextIdx ↔ h ∈ nexts L.entries
  /-- the heads map holds each head once (needed for the traversal: roots without duplicates) -/
  hnodup : L.heads.Nodup

/-- an honest incoming log: drawn from the universe, its heads are members -/
structure Honest (U : List Entry) (A heads : OMap) : Prop where
  sub   : ∀ e ∈ A, e ∈ U
  hsub  : ∀ e ∈ heads, e ∈ A

theorem inv_empty (U : List Entry) (id : Nat) : Inv U (Log.empty id) :=
  ⟨by simp [Log.empty], by simp [Log.empty], by simp [Log.empty, nexts], by simp [Log.empty]⟩

theorem joinCore_eq (L : Log) (A headsA : OMap) (Aid : Nat) (h : Aid = L.id) :
    joinCore L A headsA Aid =
      { L with
        entries := merge L.entries (difference A headsA L),
        heads := (findHeads (merge L.heads headsA)).filter (fun e =>
          !(nexts (difference A headsA L)).contains e.hash &&
          !(L.nextIdx ++ nexts (difference A headsA L)).contains e.hash),
        nextIdx := L.nextIdx ++ nexts (difference A headsA L) } := by
  unfold joinCore
  simp [h]

theorem joinCore_ne (L : Log) (A headsA : OMap) (Aid : Nat) (h : Aid ≠ L.id) :
    joinCore L A headsA Aid = L := by
  unfold joinCore
  simp [h]

theorem inv_joinCore {U : List Entry} (hU : HashDet U) (L : Log) (A headsA : OMap) (Aid : Nat)
    (hI : Inv U L) (hA : Honest U A headsA)
    -- heads completeness: every incoming head is already held or is among the new items.
    -- This is exactly what fails for an entry of a foreign log id (finding F4).
    (hcomplete : ∀ e ∈ headsA, e ∈ L.entries ∨ e ∈ difference A headsA L) :
    Inv U (joinCore L A headsA Aid) := by
  by_cases hid : Aid = L.id
  case neg => rw [joinCore_ne L A headsA Aid hid]; exact hI
  rw [joinCore_eq L A headsA Aid hid]
  have hAd : HashDet A := hashDet_sub hU hA.sub
  have hD := difference_ok hAd headsA L
  generalize difference A headsA L = N at hD hcomplete
  have hNU : ∀ e ∈ N, e ∈ U := fun e he => hA.sub e (hD.item e he).1
  have hHU : ∀ e ∈ headsA, e ∈ U := fun e he => hA.sub e (hA.hsub e he)
  have hLhU : ∀ e ∈ L.heads, e ∈ U := fun e he => hI.sub e ((hI.heads e).mp he).1
  have hmemE : ∀ e, e ∈ merge L.entries N ↔ e ∈ L.entries ∨ e ∈ N :=
    mem_merge_iff hU _ _ hI.sub hNU
  have hnx : ∀ h, h ∈ nexts (merge L.entries N) ↔ h ∈ nexts L.entries ∨ h ∈ nexts N := by
    intro h; simp only [mem_nexts]
    constructor
    · rintro ⟨e, he, hn⟩
      rcases (hmemE e).mp he with h1 | h1
      · exact Or.inl ⟨e, h1, hn⟩
      · exact Or.inr ⟨e, h1, hn⟩
    · rintro (⟨e, he, hn⟩ | ⟨e, he, hn⟩)
      · exact ⟨e, (hmemE e).mpr (Or.inl he), hn⟩
      · exact ⟨e, (hmemE e).mpr (Or.inr he), hn⟩
  have hmemH : ∀ e, e ∈ merge L.heads headsA ↔ e ∈ L.heads ∨ e ∈ headsA :=
    mem_merge_iff hU _ _ hLhU hHU
  constructor
  · intro e he
    rcases (hmemE e).mp he with h | h
    · exact hI.sub e h
    · exact hNU e h
  · intro e
    simp only [List.mem_filter, mem_findHeads, Bool.and_eq_true, Bool.not_eq_true',
      List.contains_eq_mem, decide_eq_false_iff_not, List.mem_append, not_or, hmemH, hmemE, hnx, hI.nidx]
    constructor
    · rintro ⟨⟨hmem, _⟩, hnN, hnL, _⟩
      refine ⟨?_, hnL, hnN⟩
      rcases hmem with hmem | hmem
      · exact Or.inl ((hI.heads e).mp hmem).1
      · exact hcomplete e hmem
    · rintro ⟨hmem, hnL, hnN⟩
      refine ⟨⟨?_, ?_⟩, hnN, hnL, hnN⟩
      · rcases hmem with hmem | hmem
        · exact Or.inl ((hI.heads e).mpr ⟨hmem, hnL⟩)
        · rcases hD.why e hmem with hinit | ⟨e', he', hn⟩
          · simp only [List.mem_map] at hinit
            obtain ⟨x, hx, hxh⟩ := hinit
            have : x = e := hU x (hHU x hx) e (hNU e hmem) hxh
            exact Or.inr (this ▸ hx)
          · exact absurd ((mem_nexts N e.hash).mpr ⟨e', he', hn⟩) hnN
      · -- unreferenced inside heads ∪ headsA because unreferenced in all entries
        simp only [mem_nexts, hmemH]
        rintro ⟨x, hx, hn⟩
        rcases hx with hx | hx
        · exact hnL ((mem_nexts _ _).mpr ⟨x, ((hI.heads x).mp hx).1, hn⟩)
        · rcases hcomplete x hx with hx' | hx'
          · exact hnL ((mem_nexts _ _).mpr ⟨x, hx', hn⟩)
          · exact hnN ((mem_nexts _ _).mpr ⟨x, hx', hn⟩)
  · intro h
    simp only [List.mem_append, hnx, hI.nidx]
  · exact ((nodup_merge headsA hI.hnodup).filter _).filter _

/-- heads completeness, the hypothesis `inv_joinCore` needs: holds when every incoming entry
carries our log id -/
theorem heads_complete {U : List Entry} (hU : HashDet U) (L : Log) (A headsA : OMap)
    (hA : Honest U A headsA) (hLU : ∀ e ∈ L.entries, e ∈ U) (hid : ∀ e ∈ A, e.logId = L.id) :
    ∀ e ∈ headsA, e ∈ L.entries ∨ e ∈ difference A headsA L := by
  intro e he
  have heA := hA.hsub e he
  have hAd : HashDet A := hashDet_sub hU hA.sub
  cases hheld : has L.entries e.hash
  · right
    have hg : get A e.hash = some e := get_of_mem hU hA.sub heA
    obtain ⟨y, hy, hyh⟩ := diffLoop_complete A L (headsA.length + (nexts A).length + 1)
      (headsA.map (·.hash)) [] []
      (by
        have h1 : W (nexts A) [] ≤ (nexts A).length := by unfold W; exact List.length_filter_le _ _
        simp only [List.length_map]; omega)
      e.hash (List.mem_map.mpr ⟨e, he, rfl⟩) e hg hheld (hid e heA)
    have hyA : y ∈ A := (difference_item A headsA L y hy).1
    exact (hAd y hyA e heA hyh) ▸ hy
  · left
    obtain ⟨y, hy, hyh⟩ := (has_iff L.entries e.hash).mp hheld
    exact (hU y (hLU y hy) e (hA.sub e heA) hyh) ▸ hy

/-- **`joinCore` preserves the heads invariant for every honest incoming log of the same log id.** -/
theorem inv_joinCore_honest {U : List Entry} (hU : HashDet U) (L : Log) (A headsA : OMap) (Aid : Nat)
    (hI : Inv U L) (hA : Honest U A headsA) (hid : ∀ e ∈ A, e.logId = L.id) :
    Inv U (joinCore L A headsA Aid) :=
  inv_joinCore hU L A headsA Aid hI hA (heads_complete hU L A headsA hA hI.sub hid)

/-! ### The checked `join` -/

theorem inv_bumpClock {U : List Entry} {L : Log} (h : Inv U L) : Inv U (bumpClock L) :=
  ⟨h.sub, h.heads, h.nidx, h.hnodup⟩

/-- a successful `join` is the identity (foreign id) or `bumpClock ∘ joinCore` with all new items
acceptable -/
theorem join_ok_cases {canAppend : Entry → Bool} {L L' : Log} {A headsA : OMap} {Aid : Nat}
    (h : join canAppend L A headsA Aid = .ok L') :
    (Aid ≠ L.id ∧ L' = L) ∨
    (Aid = L.id ∧ (difference A headsA L).all (acceptable canAppend) = true ∧
      L' = bumpClock (joinCore L A headsA Aid)) := by
  unfold join at h
  by_cases hid : Aid = L.id
  · right
    simp only [hid, bne_self_eq_false, Bool.false_eq_true, if_false, joinChecked] at h
    refine ⟨hid, ?_⟩
    cases hall : (difference A headsA L).all (acceptable canAppend)
    · rw [hall] at h
      simp only [Bool.false_eq_true, if_false] at h
      split at h <;> simp [Except.map] at h
    · rw [hall] at h
      simp only [if_true, Except.map] at h
      injection h with h
      exact ⟨rfl, by rw [hid]; exact h.symm⟩
  · left
    have : (Aid != L.id) = true := by simpa using hid
    simp only [this, if_true] at h
    injection h with h
    exact ⟨hid, h.symm⟩

/-- **`join` preserves the heads invariant.** -/
theorem inv_join_honest {U : List Entry} (hU : HashDet U) {canAppend : Entry → Bool} {L L' : Log}
    {A headsA : OMap} {Aid : Nat} (hI : Inv U L) (hA : Honest U A headsA)
    (hid : ∀ e ∈ A, e.logId = L.id) (h : join canAppend L A headsA Aid = .ok L') : Inv U L' := by
  rcases join_ok_cases h with ⟨_, rfl⟩ | ⟨_, _, rfl⟩
  · exact hI
  · exact inv_bumpClock (inv_joinCore_honest hU L A headsA Aid hI hA hid)

/-- on success `join` adds exactly the `difference` -/
theorem join_entries {U : List Entry} (hU : HashDet U) {canAppend : Entry → Bool} {L L' : Log}
    {A headsA : OMap} {Aid : Nat} (hI : Inv U L) (hA : Honest U A headsA) (hAid : Aid = L.id)
    (h : join canAppend L A headsA Aid = .ok L') :
    ∀ e, e ∈ L'.entries ↔ e ∈ L.entries ∨ e ∈ difference A headsA L := by
  rcases join_ok_cases h with ⟨hne, _⟩ | ⟨_, _, rfl⟩
  · exact absurd hAid hne
  · intro e
    rw [joinCore_eq L A headsA Aid hAid]
    exact mem_merge_iff hU _ _ hI.sub (fun x hx => hA.sub x (difference_item A headsA L x hx).1) e

/-- `join` never removes an entry (any incoming log, honest or not) -/
theorem join_mono {canAppend : Entry → Bool} {L L' : Log} {A headsA : OMap} {Aid : Nat}
    (h : join canAppend L A headsA Aid = .ok L') : ∀ e ∈ L.entries, e ∈ L'.entries := by
  rcases join_ok_cases h with ⟨_, rfl⟩ | ⟨hid, _, rfl⟩
  · exact fun e he => he
  · intro e he
    rw [joinCore_eq L A headsA Aid hid]
    exact mem_merge_of_left _ _ e he

/-- `join` adds only acceptable items of our log id (any incoming log, honest or not) -/
theorem join_new_acceptable {canAppend : Entry → Bool} {L L' : Log} {A headsA : OMap} {Aid : Nat}
    (h : join canAppend L A headsA Aid = .ok L') :
    ∀ e ∈ L'.entries, e ∈ L.entries ∨
      (canAppend e = true ∧ e.sigOk = true ∧ e.logId = L.id ∧ e ∈ A) := by
  rcases join_ok_cases h with ⟨_, rfl⟩ | ⟨hid, hall, rfl⟩
  · exact fun e he => Or.inl he
  · intro e he
    rw [joinCore_eq L A headsA Aid hid] at he
    rcases mem_merge _ _ e he with he | he
    · exact Or.inl he
    · right
      have hacc := List.all_eq_true.mp hall e he
      simp only [acceptable, Bool.and_eq_true] at hacc
      have := difference_item A headsA L e he
      exact ⟨hacc.1, hacc.2, this.2.2, this.1⟩

/-- entries stay duplicate-free under `joinCore` and `join` -/
theorem nodup_joinCore (L : Log) (A headsA : OMap) (Aid : Nat) (h : L.entries.Nodup) :
    (joinCore L A headsA Aid).entries.Nodup := by
  by_cases hid : Aid = L.id
  · rw [joinCore_eq L A headsA Aid hid]; exact nodup_merge _ h
  · rw [joinCore_ne L A headsA Aid hid]; exact h

theorem nodup_join {canAppend : Entry → Bool} {L L' : Log} {A headsA : OMap} {Aid : Nat}
    (hnd : L.entries.Nodup) (h : join canAppend L A headsA Aid = .ok L') : L'.entries.Nodup := by
  rcases join_ok_cases h with ⟨_, rfl⟩ | ⟨_, _, rfl⟩
  · exact hnd
  · exact nodup_joinCore L A headsA Aid hnd

end Orbit
