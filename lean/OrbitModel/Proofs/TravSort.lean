import OrbitModel.Model.Trav
/-!
# Sorted insertion and `pushKids` facts for the generic traversal

The order is only required to be total *on a carrier list `S`* (`StrictTotalOn`): the log order
`Entry.lt` is total only on a tie-free universe.  The spike's global `StrictTotal` is kept and
implies the relative notion.
-/
set_option linter.unusedSectionVars false
namespace Trav
variable {α : Type} [DecidableEq α]

/-- strict order, total on the members of `S` -/
structure StrictTotalOn (lt : α → α → Bool) (S : List α) : Prop where
  irrefl : ∀ a, lt a a = false
  trans  : ∀ a b c, lt a b = true → lt b c = true → lt a c = true
  total  : ∀ a ∈ S, ∀ b ∈ S, a ≠ b → lt a b = true ∨ lt b a = true

structure StrictTotal (lt : α → α → Bool) : Prop where
  irrefl : ∀ a, lt a a = false
  trans  : ∀ a b c, lt a b = true → lt b c = true → lt a c = true
  total  : ∀ a b, a ≠ b → lt a b = true ∨ lt b a = true

theorem StrictTotal.on {lt : α → α → Bool} (h : StrictTotal lt) (S : List α) : StrictTotalOn lt S :=
  ⟨h.irrefl, h.trans, fun a _ b _ hne => h.total a b hne⟩

/-- strictly descending -/
def Desc (lt : α → α → Bool) (l : List α) : Prop := l.Pairwise (fun a b => lt b a = true)

theorem mem_insDesc (lt : α → α → Bool) (x y : α) (l : List α) :
    y ∈ insDesc lt x l ↔ y = x ∨ y ∈ l := by
  induction l with
  | nil => simp [insDesc]
  | cons z zs ih =>
    unfold insDesc
    split
    · simp
    · simp [ih]; constructor
      · rintro (h | h | h) <;> simp [h]
      · rintro (h | h | h) <;> simp [h]

theorem mem_sortDesc (lt : α → α → Bool) (y : α) (l : List α) :
    y ∈ sortDesc lt l ↔ y ∈ l := by
  induction l with
  | nil => simp [sortDesc]
  | cons z zs ih =>
    have : sortDesc lt (z :: zs) = insDesc lt z (sortDesc lt zs) := rfl
    rw [this, mem_insDesc, ih]; simp

theorem length_insDesc (lt : α → α → Bool) (x : α) (l : List α) :
    (insDesc lt x l).length = l.length + 1 := by
  induction l with
  | nil => rfl
  | cons z zs ih =>
    unfold insDesc
    split
    · rfl
    · simp [ih]

theorem length_sortDesc (lt : α → α → Bool) (l : List α) : (sortDesc lt l).length = l.length := by
  induction l with
  | nil => rfl
  | cons z zs ih =>
    have : sortDesc lt (z :: zs) = insDesc lt z (sortDesc lt zs) := rfl
    rw [this, length_insDesc, ih]; rfl

theorem desc_insDesc {lt : α → α → Bool} {S : List α} (h : StrictTotalOn lt S) (x : α) (l : List α)
    (hxS : x ∈ S) (hlS : ∀ y ∈ l, y ∈ S)
    (hl : Desc lt l) (hx : x ∉ l) : Desc lt (insDesc lt x l) := by
  induction l with
  | nil => simp [insDesc, Desc]
  | cons z zs ih =>
    unfold insDesc
    have hz : Desc lt zs := (List.pairwise_cons.mp hl).2
    have hzall := (List.pairwise_cons.mp hl).1
    split
    · rename_i hlt
      apply List.pairwise_cons.mpr
      refine ⟨?_, hl⟩
      intro a ha
      rcases List.mem_cons.mp ha with rfl | ha
      · exact hlt
      · exact h.trans _ _ _ (hzall a ha) hlt
    · rename_i hlt
      have hne : x ≠ z := fun e => hx (by simp [e])
      have hxz : lt x z = true := by
        rcases h.total x hxS z (hlS z List.mem_cons_self) hne with h1 | h1
        · exact h1
        · exact absurd h1 hlt
      apply List.pairwise_cons.mpr
      refine ⟨?_, ih (fun y hy => hlS y (List.mem_cons_of_mem _ hy)) hz
        (fun hm => hx (List.mem_cons_of_mem _ hm))⟩
      intro a ha
      rcases (mem_insDesc lt x a zs).mp ha with rfl | ha
      · exact hxz
      · exact hzall a ha

theorem desc_sortDesc {lt : α → α → Bool} {S : List α} (h : StrictTotalOn lt S) (l : List α)
    (hlS : ∀ y ∈ l, y ∈ S) (hn : l.Nodup) :
    Desc lt (sortDesc lt l) := by
  induction l with
  | nil => simp [sortDesc, Desc]
  | cons z zs ih =>
    have : sortDesc lt (z :: zs) = insDesc lt z (sortDesc lt zs) := rfl
    rw [this]
    have hn' := List.nodup_cons.mp hn
    have hzs : ∀ y ∈ zs, y ∈ S := fun y hy => hlS y (List.mem_cons_of_mem _ hy)
    exact desc_insDesc h z _ (hlS z List.mem_cons_self)
      (fun y hy => hzs y ((mem_sortDesc lt y zs).mp hy)) (ih hzs hn'.2)
      (fun hm => hn'.1 ((mem_sortDesc lt z zs).mp hm))

theorem desc_nodup {lt : α → α → Bool} (hirr : ∀ a, lt a a = false) {l : List α}
    (hl : Desc lt l) : l.Nodup := by
  unfold Desc at hl
  apply List.Pairwise.imp _ hl
  intro a b hab e
  subst e
  simp [hirr] at hab

theorem desc_append_singleton {lt : α → α → Bool} {l : List α} {e : α} (hl : Desc lt l)
    (h : ∀ o ∈ l, lt e o = true) : Desc lt (l ++ [e]) := by
  unfold Desc at *
  apply List.pairwise_append.mpr
  refine ⟨hl, by simp, ?_⟩
  intro a ha b hb
  simp at hb; subst hb
  exact h a ha

theorem pushKids_spec (kids : List α) : ∀ (stack seen : List α),
    (∀ x, x ∈ (pushKids kids stack seen).2 ↔ x ∈ seen ∨ x ∈ kids) ∧
    (∀ x, x ∈ (pushKids kids stack seen).1 ↔ x ∈ stack ∨ (x ∈ kids ∧ x ∉ seen)) ∧
    (stack.Nodup → (∀ x ∈ stack, x ∈ kids → x ∈ seen) → (pushKids kids stack seen).1.Nodup) := by
  induction kids with
  | nil => intro stack seen; simp [pushKids]
  | cons c cs ih =>
    intro stack seen
    have hunf : pushKids (c :: cs) stack seen =
        if c ∈ seen then pushKids cs stack seen else pushKids cs (c :: stack) (c :: seen) := by
      simp only [pushKids, List.foldl_cons]
      split <;> rfl
    rw [hunf]
    by_cases hc : c ∈ seen
    · simp only [hc, if_true]
      obtain ⟨h1, h2, h3⟩ := ih stack seen
      refine ⟨?_, ?_, ?_⟩
      · intro x; rw [h1]; simp only [List.mem_cons]
        constructor
        · rintro (h | h); exact Or.inl h; exact Or.inr (Or.inr h)
        · rintro (h | h | h); exact Or.inl h; exact Or.inl (h ▸ hc); exact Or.inr h
      · intro x; rw [h2]; simp only [List.mem_cons]
        constructor
        · rintro (h | ⟨h, hn⟩); exact Or.inl h; exact Or.inr ⟨Or.inr h, hn⟩
        · rintro (h | ⟨h | h, hn⟩)
          · exact Or.inl h
          · exact absurd (h ▸ hc) hn
          · exact Or.inr ⟨h, hn⟩
      · intro hnd hs
        exact h3 hnd (fun x hx hk => hs x hx (List.mem_cons_of_mem _ hk))
    · simp only [hc, if_false]
      obtain ⟨h1, h2, h3⟩ := ih (c :: stack) (c :: seen)
      refine ⟨?_, ?_, ?_⟩
      · intro x; rw [h1]; simp only [List.mem_cons]
        constructor
        · rintro ((h | h) | h); exact Or.inr (Or.inl h); exact Or.inl h; exact Or.inr (Or.inr h)
        · rintro (h | h | h); exact Or.inl (Or.inr h); exact Or.inl (Or.inl h); exact Or.inr h
      · intro x; rw [h2]; simp only [List.mem_cons, not_or]
        constructor
        · rintro ((h | h) | ⟨h, hn1, hn2⟩)
          · exact Or.inr ⟨Or.inl h, h ▸ hc⟩
          · exact Or.inl h
          · exact Or.inr ⟨Or.inr h, hn2⟩
        · rintro (h | ⟨h | h, hn⟩)
          · exact Or.inl (Or.inr h)
          · exact Or.inl (Or.inl h)
          · by_cases hxc : x = c
            · exact Or.inl (Or.inl hxc)
            · exact Or.inr ⟨h, hxc, hn⟩
      · intro hnd hs
        apply h3
        · apply List.nodup_cons.mpr
          refine ⟨?_, hnd⟩
          intro hm
          exact hc (hs c hm (List.mem_cons_self))
        · intro x hx hk
          rcases List.mem_cons.mp hx with rfl | hx
          · exact List.mem_cons_self
          · exact List.mem_cons_of_mem _ (hs x hx (List.mem_cons_of_mem _ hk))

end Trav
