import OrbitModel.Proofs.ReplStep
/-!
# Replicator: `Inv` is preserved by `fetched`, `finish` and `load`; every reachable state satisfies `Inv`
-/
namespace Orbit.Repl

variable {net : Nat → Info} {c : Nat} {s : St}

/-- `fetched`, own-log entry: the worker is `finishing`, its hash buffered (before the links are
queued) -/
def okPre (s : St) (i ctx hh : Nat) : St :=
  { s with workers := s.workers.set i ⟨ctx, hh, .finishing⟩, buffer := s.buffer ++ [hh] }

/-- `fetched`, entry of another log: the worker is `finishing`, nothing else changes -/
def foreignPre (s : St) (i ctx hh : Nat) : St :=
  { s with workers := s.workers.set i ⟨ctx, hh, .finishing⟩ }

theorem Inv.fetched (h : Inv net c s) (i : Nat) : Inv net c (step net s (.fetched i)) := by
  cases hwi : s.workers[i]? with
  | none => simp only [step, hwi]; exact h
  | some w =>
    obtain ⟨ctx, hh, pc⟩ := w
    cases pc with
    | waitSlot => simp only [step, hwi]; exact h
    | finishing => simp only [step, hwi]; exact h
    | fetching =>
      simp only [step, hwi]
      by_cases hc : s.cancelled.contains ctx = true
      · rw [if_pos hc]; exact h
      rw [if_neg hc]
      obtain ⟨l1, l2, hw, _, _, hset⟩ := split_at hwi
      -- a finishing worker of the new list other than this one was finishing before
      have hother : ∀ w ∈ l1 ++ ⟨ctx, hh, .finishing⟩ :: l2, w.pc = .finishing → w.item ≠ hh →
          w ∈ s.workers := by
        intro w hm _ hne
        rw [hw]
        exact mem_swap hm (fun e => hne (by rw [e]))
      cases hf : (net hh).foreign with
      | true =>
        simp only [if_true]
        show Inv net c (foreignPre s i ctx hh)
        have hS : InvS net (foreignPre s i ctx hh) :=
          h.toInvS.toFin hw (hset _) rfl rfl rfl rfl rfl (Or.inl ⟨hf, rfl⟩)
        refine ⟨hS, ?_, h.sem_eq, h.buf_idle⟩
        refine h.closure.transfer (s' := foreignPre s i ctx hh) ?_ (fun l hl => hl)
        rintro k hnf (hk | ⟨w, hm, e, hp⟩)
        · exact Or.inl hk
        · have hm' : w ∈ s.workers.set i ⟨ctx, hh, .finishing⟩ := hm
          rw [hset] at hm'
          by_cases e' : w.item = hh
          · rw [← e, e', hf] at hnf; cases hnf
          · exact Or.inr ⟨w, hother w hm' hp e', e, hp⟩
      | false =>
        simp only [Bool.false_eq_true, if_false]
        show Inv net c (List.foldl (enqueue ctx) (okPre s i ctx hh) (net hh).links)
        obtain ⟨nw, hnd, hnew, hcov, heq⟩ := foldl_enqueue_spec ctx (net hh).links (okPre s i ctx hh)
        rw [heq]
        have hS1 : InvS net (okPre s i ctx hh) :=
          h.toInvS.toFin hw (hset _) rfl rfl rfl rfl rfl (Or.inr ⟨hf, rfl⟩)
        have hnew' : ∀ k ∈ nw, task s k = none := fun k hk => (hnew k hk).2.1
        have hS : InvS net (enqd (okPre s i ctx hh) ctx nw) := hS1.enqd ctx hnd hnew'
        have htk : ∀ k, task (enqd (okPre s i ctx hh) ctx nw) k
            = if k ∈ nw then some .added else task s k := fun k => task_enqd _ ctx nw k
        have htr : ∀ l, tracked s l → tracked (enqd (okPre s i ctx hh) ctx nw) l := by
          refine tracked_of (s := s) (fun k hk => hk) ?_ (fun k hk => hk)
          intro l hl
          left; rw [htk]
          by_cases e' : l ∈ nw
          · simp [e']
          · simp only [e', if_false]; exact hl
        have hmine : (⟨ctx, hh, .finishing⟩ : Worker) ∈ (enqd (okPre s i ctx hh) ctx nw).workers := by
          rw [enqd_workers]
          refine List.mem_append.2 (Or.inl ?_)
          show _ ∈ s.workers.set i ⟨ctx, hh, .finishing⟩
          rw [hset]; exact List.mem_append.2 (Or.inr List.mem_cons_self)
        refine ⟨hS, ?_, h.sem_eq, fun _ => isIdle_false_of_task (hS.w_task _ hmine) (by simp [tsOf])⟩
        rintro k (hk | ⟨w, hm, e, hp⟩) hnf l hl
        · rw [htk] at hk
          by_cases e' : k ∈ nw
          · simp [e'] at hk
          · simp only [e', if_false] at hk
            exact htr l (h.closure k (Or.inl hk) hnf l hl)
        · rw [enqd_workers] at hm
          rcases List.mem_append.1 hm with hm | hm
          · have hm' : w ∈ s.workers.set i ⟨ctx, hh, .finishing⟩ := hm
            rw [hset] at hm'
            by_cases e' : w.item = hh
            · -- the entry just fetched: its links have just been queued
              rw [← e, e'] at hl
              rcases hcov l hl with h' | h' | h'
              · exact Or.inl h'
              · exact htr l (Or.inr (Or.inl h'))
              · refine Or.inr (Or.inl ?_)
                rw [htk]; simp [h']
            · exact htr l (h.closure k (Or.inr ⟨w, hother w hm' hp e', e, hp⟩) hnf l hl)
          · obtain ⟨k', _, rfl⟩ := mem_spawn.1 hm
            cases hp

theorem Inv.finish (h : Inv net c s) (i : Nat) : Inv net c (step net s (.finish i)) := by
  cases hwi : s.workers[i]? with
  | none => simp only [step, hwi]; exact h
  | some w =>
    obtain ⟨ctx, hh, pc⟩ := w
    cases pc with
    | waitSlot => simp only [step, hwi]; exact h
    | fetching => simp only [step, hwi]; exact h
    | finishing =>
      simp only [step, hwi]
      obtain ⟨l1, l2, hw, _, hrm, _⟩ := split_at hwi
      have hmine : (⟨ctx, hh, .finishing⟩ : Worker) ∈ s.workers :=
        hw ▸ List.mem_append.2 (Or.inr List.mem_cons_self)
      have hip : s.inProgress ≥ 1 := by
        rw [h.inprog_eq, hw]; simp [List.countP_append, List.countP_cons]; omega
      have hsem : s.sem + 1 + (s.inProgress - 1) = c := by have := h.sem_eq; omega
      rw [done_eq]
      have hS : InvS net (donePre { s with workers := removeAt s.workers i } hh) :=
        h.toInvS.complete hw hrm rfl rfl rfl rfl rfl rfl
      have htk := lookup_set_task (s := s)
        (s' := donePre { s with workers := removeAt s.workers i } hh) (h := hh) (t := .fetched) rfl
      refine Inv.flushed 1 hS ?_ hsem
      apply h.closure.transfer
      · rintro k _ (hk | ⟨w, hm, e, hp⟩)
        · rw [htk] at hk
          by_cases e : hh = k
          · exact Or.inr ⟨_, hmine, e, rfl⟩
          · simp only [e, if_false] at hk; exact Or.inl hk
        · exact Or.inr ⟨w, mem_removeAt hw hrm hm, e, hp⟩
      · refine tracked_of (s := s) (fun k hk => hk) ?_ (fun k hk => hk)
        intro l hl
        left; rw [htk]
        by_cases e' : hh = l
        · simp [e']
        · simp only [e', if_false]; exact hl

theorem Inv.load (h : Inv net c s) (ctx : Nat) (hs : List Nat) : Inv net c (step net s (.load ctx hs)) := by
  show Inv net c (List.foldl (enqueue ctx) { s with failed := [] } (s.failed ++ hs))
  obtain ⟨nw, hnd, hnew, hcov, heq⟩ := foldl_enqueue_spec ctx (s.failed ++ hs) { s with failed := [] }
  rw [heq]
  have hnew' : ∀ k ∈ nw, task s k = none := fun k hk => (hnew k hk).2.1
  have hS0 : InvS net { s with failed := [] } :=
    h.toInvS.congr rfl rfl rfl rfl rfl rfl rfl
  refine ⟨hS0.enqd ctx hnd hnew', ?_, h.sem_eq, ?_⟩
  · intro k hk hnf l hl
    have hk : got s k := by
      rcases hk with hk | ⟨w, hm, e, hp⟩
      · rw [task_enqd] at hk
        by_cases e : k ∈ nw
        · simp [e] at hk
        · simp only [e, if_false] at hk; exact Or.inl hk
      · rw [enqd_workers] at hm
        rcases List.mem_append.1 hm with hm | hm
        · exact Or.inr ⟨w, hm, e, hp⟩
        · obtain ⟨k', _, rfl⟩ := mem_spawn.1 hm
          cases hp
    · have hold : ∀ l, task s l ≠ none → task (enqd { s with failed := [] } ctx nw) l ≠ none := by
        intro l hl
        rw [task_enqd]
        by_cases e' : l ∈ nw
        · simp [e']
        · simp only [e', if_false]; exact hl
      rcases h.closure k hk hnf l hl with h' | h' | h'
      · exact Or.inl h'
      · exact Or.inr (Or.inl (hold l h'))
      · rcases hcov l (List.mem_append.2 (Or.inl h')) with h'' | h'' | h''
        · exact Or.inl h''
        · exact Or.inr (Or.inl (hold l h''))
        · refine Or.inr (Or.inl ?_)
          rw [task_enqd]; simp [h'']
  · intro hb
    cases nw with
    | nil => rw [enqd_nil]; exact h.buf_idle hb
    | cons a nw =>
      have : task (enqd { s with failed := [] } ctx (a :: nw)) a = some .added := by
        rw [task_enqd]; simp
      exact isIdle_false_of_task this (by simp)

theorem Inv.step (h : Inv net c s) (a : Act) : Inv net c (step net s a) := by
  cases a with
  | load ctx hs => exact h.load ctx hs
  | cancel ctx => exact h.cancel ctx
  | acquire i => exact h.acquire i
  | fetched i => exact h.fetched i
  | finish i => exact h.finish i
  | fetchFail i => exact h.fetchFail i
  | deliver => exact h.deliver

theorem Inv.init (net : Nat → Info) (c : Nat) : Inv net c { sem := c } where
  inprog_eq := rfl
  keys_nodup := List.nodup_nil
  w_nodup := List.nodup_nil
  w_task := by intro w hw; cases hw
  task_w := by intro h t ht; cases ht
  queue_eq := rfl
  pend_fetched := by intro b hb; cases hb
  buf_got := by intro h hh; cases hh
  fin_buf := by intro w hw; cases hw
  buf_nodup := List.nodup_nil
  log_nodup := List.nodup_nil
  log_ok := by intro h hh; cases hh
  fetched_in := by intro h hh; cases hh
  closure := by
    rintro h (hh | ⟨w, hw, _⟩)
    · cases hh
    · cases hw
  sem_eq := rfl
  buf_idle := by intro hb; exact absurd rfl hb

theorem Inv.run (h : Inv net c s) (acts : List Act) : Inv net c (run net s acts) := by
  induction acts generalizing s with
  | nil => exact h
  | cons a acts ih => exact ih (h.step a)

/-- a hash is queued iff its task is `added` (iff its one worker waits for a slot) -/
theorem InvS.mem_queue_iff (h : InvS net s) (k : Nat) : k ∈ s.queue ↔ task s k = some .added := by
  rw [h.queue_eq]
  constructor
  · intro hk
    obtain ⟨w, hw, rfl⟩ := List.mem_map.1 hk
    obtain ⟨hm, hp⟩ := List.mem_filter.1 hw
    have := h.w_task w hm
    obtain ⟨_, _, pc⟩ := w
    cases pc
    · exact this
    · simp [isWait] at hp
    · simp [isWait] at hp
  · intro hk
    obtain ⟨w, hm, rfl, hp⟩ := h.task_w k .added hk (by simp)
    refine List.mem_map.2 ⟨w, List.mem_filter.2 ⟨hm, ?_⟩, rfl⟩
    obtain ⟨_, _, pc⟩ := w
    cases pc
    · rfl
    · simp [tsOf] at hp
    · simp [tsOf] at hp

/-- a task is `fetching` iff a worker bound to it is inside a fetch, or between `processItems` and
`processEntryDone` -/
theorem InvS.fetching_iff (h : InvS net s) (k : Nat) :
    task s k = some .fetching ↔
      ∃ w ∈ s.workers, w.item = k ∧ (w.pc = .fetching ∨ w.pc = .finishing) := by
  constructor
  · intro hk
    obtain ⟨w, hm, rfl, hp⟩ := h.task_w k .fetching hk (by simp)
    refine ⟨w, hm, rfl, ?_⟩
    obtain ⟨_, _, pc⟩ := w
    cases pc
    · simp [tsOf] at hp
    · exact Or.inl rfl
    · exact Or.inr rfl
  · rintro ⟨w, hm, rfl, hp | hp⟩ <;>
    · have := h.w_task w hm
      rw [hp] at this; exact this

/-- **safety**: every reachable state of the replicator satisfies `Inv` -/
theorem inv_reachable (net : Nat → Info) (c : Nat) (acts : List Act) :
    Inv net c (run net { sem := c } acts) := (Inv.init net c).run acts

/-- the closure invariant in the form of the property statement: for every hash in the oplog, in
the buffer (its worker may still be `finishing`), in a pending batch, or fetched and of this log,
every link is tracked -/
theorem closure_reachable (net : Nat → Info) (c : Nat) (acts : List Act) (h : Nat) :
    let s := run net { sem := c } acts
    (h ∈ s.log ∨ inBP s h ∨ (task s h = some .fetched ∧ (net h).foreign = false)) →
    ∀ l ∈ (net h).links, l ∈ s.log ∨ task s l ≠ none ∨ l ∈ s.failed := by
  intro s hh l hl
  have hi := inv_reachable net c acts
  rcases hh with hh | hh | hh
  · exact hi.closure h (Or.inl (hi.log_ok h hh).1) (hi.log_ok h hh).2.2 l hl
  · exact hi.closure h (hi.bp_got h hh).1 (hi.bp_got h hh).2 l hl
  · exact hi.closure h (Or.inl hh.1) hh.2 l hl

end Orbit.Repl
