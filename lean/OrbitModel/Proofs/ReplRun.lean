import OrbitModel.Proofs.ReplStep
/-!
# Replicator: `Inv` is preserved by `fetchOk` and `load`; every reachable state satisfies `Inv`
-/
namespace Orbit.Repl

variable {net : Nat → Info} {c : Nat} {s : St}

/-- `fetchOk`, own-log entry: worker removed, hash buffered (before the links are queued) -/
def okPre (s : St) (i hh : Nat) : St :=
  { s with workers := removeAt s.workers i, buffer := s.buffer ++ [hh] }

theorem Inv.fetchOk (h : Inv net c s) (i : Nat) : Inv net c (step net s (.fetchOk i)) := by
  cases hwi : s.workers[i]? with
  | none => simp only [step, hwi]; exact h
  | some w =>
    obtain ⟨ctx, hh, pc⟩ := w
    cases pc with
    | waitSlot => simp only [step, hwi]; exact h
    | fetching =>
      simp only [step, hwi]
      by_cases hc : s.cancelled.contains ctx = true
      · rw [if_pos hc]; exact h
      rw [if_neg hc]
      obtain ⟨l1, l2, hw, _, hrm, _⟩ := split_at hwi
      have hip : s.inProgress ≥ 1 := by
        rw [h.inprog_eq, hw]; simp [List.countP_append, isFetch]; omega
      have hsem : s.sem + 1 + (s.inProgress - 1) = c := by have := h.sem_eq; omega
      cases hf : (net hh).foreign with
      | true =>
        simp only [if_true]
        show Inv net c (done { s with workers := removeAt s.workers i } hh)
        rw [done_eq]
        have hS : InvS net (donePre { s with workers := removeAt s.workers i } hh) :=
          h.toInvS.complete hw hrm rfl rfl rfl rfl rfl (Or.inl ⟨hf, rfl⟩)
        have htk := lookup_set_task (s := s)
          (s' := donePre { s with workers := removeAt s.workers i } hh) (h := hh) (t := .fetched) rfl
        refine Inv.finish 1 hS ?_ hsem
        intro k hk hnf l hl
        rw [htk] at hk
        by_cases e : hh = k
        · rw [← e, hf] at hnf; cases hnf
        · simp only [e, if_false] at hk
          rcases h.closure k hk hnf l hl with h' | h' | h'
          · exact Or.inl h'
          · refine Or.inr (Or.inl ?_)
            rw [htk]
            by_cases e' : hh = l
            · simp [e']
            · simp only [e', if_false]; exact h'
          · exact Or.inr (Or.inr h')
      | false =>
        simp only [Bool.false_eq_true, if_false]
        show Inv net c (done (List.foldl (enqueue ctx) (okPre s i hh) (net hh).links) hh)
        obtain ⟨nw, hnd, hnew, hcov, heq⟩ := foldl_enqueue_spec ctx (net hh).links (okPre s i hh)
        rw [heq, done_eq]
        have hnew' : ∀ k ∈ nw, task s k = none := fun k hk => (hnew k hk).2.1
        have hX : InvS net (enqd s ctx nw) := h.toInvS.enqd ctx hnd hnew'
        have hS : InvS net (donePre (enqd (okPre s i hh) ctx nw) hh) := by
          refine hX.complete (l1 := l1) (l2 := l2 ++ spawn ctx nw) (ctx := ctx) (hh := hh)
            ?_ ?_ rfl rfl rfl rfl rfl (Or.inr ⟨hf, rfl⟩)
          · rw [enqd_workers, hw]; simp
          · show removeAt s.workers i ++ spawn ctx nw = _
            rw [hrm, List.append_assoc]
        have htk : ∀ k, task (donePre (enqd (okPre s i hh) ctx nw) hh) k
            = if hh = k then some .fetched else if k ∈ nw then some .added else task s k := by
          intro k
          rw [lookup_set_task (s := enqd (okPre s i hh) ctx nw) (h := hh) (t := .fetched) rfl, task_enqd]
          rfl
        have htr : ∀ l, task s l ≠ none → task (donePre (enqd (okPre s i hh) ctx nw) hh) l ≠ none := by
          intro l hl
          rw [htk]
          by_cases e : hh = l
          · simp [e]
          · by_cases e' : l ∈ nw
            · simp [e, e']
            · simp only [e, e', if_false]; exact hl
        refine Inv.finish 1 hS ?_ hsem
        intro k hk hnf l hl
        rw [htk] at hk
        by_cases e : hh = k
        · subst e
          rcases hcov l hl with h' | h' | h'
          · exact Or.inl h'
          · exact Or.inr (Or.inl (htr l h'))
          · refine Or.inr (Or.inl ?_)
            rw [htk]
            by_cases e : hh = l
            · simp [e]
            · simp [e, h']
        · by_cases e' : k ∈ nw
          · simp [e, e'] at hk
          · simp only [e, e', if_false] at hk
            rcases h.closure k hk hnf l hl with h' | h' | h'
            · exact Or.inl h'
            · exact Or.inr (Or.inl (htr l h'))
            · exact Or.inr (Or.inr h')

theorem Inv.load (h : Inv net c s) (ctx : Nat) (hs : List Nat) : Inv net c (step net s (.load ctx hs)) := by
  show Inv net c (List.foldl (enqueue ctx) { s with failed := [] } (s.failed ++ hs))
  obtain ⟨nw, hnd, hnew, hcov, heq⟩ := foldl_enqueue_spec ctx (s.failed ++ hs) { s with failed := [] }
  rw [heq]
  have hnew' : ∀ k ∈ nw, task s k = none := fun k hk => (hnew k hk).2.1
  have hS0 : InvS net { s with failed := [] } :=
    h.toInvS.congr rfl rfl rfl rfl rfl (fun _ => Iff.rfl) id
  refine ⟨hS0.enqd ctx hnd hnew', ?_, h.sem_eq, ?_⟩
  · intro k hk hnf l hl
    rw [task_enqd] at hk
    by_cases e : k ∈ nw
    · simp [e] at hk
    · simp only [e, if_false] at hk
      have hold : ∀ l, task s l ≠ none → task (enqd { s with failed := [] } ctx nw) l ≠ none := by
        intro l hl
        rw [task_enqd]
        by_cases e' : l ∈ nw
        · simp [e']
        · simp only [e', if_false]; exact hl
      rcases h.closure k hk hnf l hl with h' | h' | h'
      · exact Or.inl h'
      · exact Or.inr (Or.inl (hold l h'))
      · rcases hcov l (List.mem_append.2 (Or.inl h')) with h'' | h'' | h''
        · exact Or.inl h''
        · exact Or.inr (Or.inl (hold l h''))
        · refine Or.inr (Or.inl ?_)
          rw [task_enqd]; simp [h'']
  · intro hb
    cases nw with
    | nil => rw [enqd_nil]; exact h.buf_idle hb
    | cons a nw =>
      have : task (enqd { s with failed := [] } ctx (a :: nw)) a = some .added := by
        rw [task_enqd]; simp
      exact isIdle_false_of_task this (by simp)

theorem Inv.step (h : Inv net c s) (a : Act) : Inv net c (step net s a) := by
  cases a with
  | load ctx hs => exact h.load ctx hs
  | cancel ctx => exact h.cancel ctx
  | acquire i => exact h.acquire i
  | fetchOk i => exact h.fetchOk i
  | fetchFail i => exact h.fetchFail i
  | deliver => exact h.deliver

theorem Inv.init (net : Nat → Info) (c : Nat) : Inv net c { sem := c } where
  inprog_eq := rfl
  keys_nodup := List.nodup_nil
  w_nodup := List.nodup_nil
  w_task := by intro w hw; cases hw
  task_w := by intro h t ht; cases ht
  queue_eq := rfl
  bp_fetched := by
    intro h hh
    rcases hh with hh | ⟨b, hb, _⟩
    · cases hh
    · cases hb
  buf_nodup := List.nodup_nil
  log_nodup := List.nodup_nil
  log_ok := by intro h hh; cases hh
  fetched_in := by intro h hh; cases hh
  closure := by intro h hh; cases hh
  sem_eq := rfl
  buf_idle := by intro hb; exact absurd rfl hb

theorem Inv.run (h : Inv net c s) (acts : List Act) : Inv net c (run net s acts) := by
  induction acts generalizing s with
  | nil => exact h
  | cons a acts ih => exact ih (h.step a)

/-- a hash is queued iff its task is `added` (iff its one worker waits for a slot) -/
theorem InvS.mem_queue_iff (h : InvS net s) (k : Nat) : k ∈ s.queue ↔ task s k = some .added := by
  rw [h.queue_eq]
  constructor
  · intro hk
    obtain ⟨w, hw, rfl⟩ := List.mem_map.1 hk
    obtain ⟨hm, hp⟩ := List.mem_filter.1 hw
    have := h.w_task w hm
    obtain ⟨_, _, pc⟩ := w
    cases pc
    · exact this
    · simp [isWait] at hp
  · intro hk
    obtain ⟨w, hm, rfl, hp⟩ := h.task_w k .added hk (by simp)
    refine List.mem_map.2 ⟨w, List.mem_filter.2 ⟨hm, ?_⟩, rfl⟩
    obtain ⟨_, _, pc⟩ := w
    cases pc
    · rfl
    · simp [tsOf] at hp

/-- a task is `fetching` iff a worker bound to it is inside a fetch -/
theorem InvS.fetching_iff (h : InvS net s) (k : Nat) :
    task s k = some .fetching ↔ ∃ w ∈ s.workers, w.item = k ∧ w.pc = .fetching := by
  constructor
  · intro hk
    obtain ⟨w, hm, rfl, hp⟩ := h.task_w k .fetching hk (by simp)
    refine ⟨w, hm, rfl, ?_⟩
    obtain ⟨_, _, pc⟩ := w
    cases pc
    · simp [tsOf] at hp
    · rfl
  · rintro ⟨w, hm, rfl, hp⟩
    have := h.w_task w hm
    rw [hp] at this; exact this

/-- **safety**: every reachable state of the replicator satisfies `Inv` -/
theorem inv_reachable (net : Nat → Info) (c : Nat) (acts : List Act) :
    Inv net c (run net { sem := c } acts) := (Inv.init net c).run acts

/-- the closure invariant in the form of the property statement: for every hash in the oplog, in
the buffer, in a pending batch, or fetched and of this log, every link is tracked -/
theorem closure_reachable (net : Nat → Info) (c : Nat) (acts : List Act) (h : Nat) :
    let s := run net { sem := c } acts
    (h ∈ s.log ∨ inBP s h ∨ (task s h = some .fetched ∧ (net h).foreign = false)) →
    ∀ l ∈ (net h).links, l ∈ s.log ∨ task s l ≠ none ∨ l ∈ s.failed := by
  intro s hh l hl
  have hi := inv_reachable net c acts
  rcases hh with hh | hh | hh
  · exact hi.closure h (hi.log_ok h hh).1 (hi.log_ok h hh).2.2 l hl
  · exact hi.closure h (hi.bp_fetched h hh).1 (hi.bp_fetched h hh).2 l hl
  · exact hi.closure h hh.1 hh.2 l hl

end Orbit.Repl
