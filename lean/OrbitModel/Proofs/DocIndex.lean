import OrbitModel.Proofs.IndexScan
/-!
# The document index (as fixed) equals replay; the pinned one does not

`documentIndex.UpdateIndex` scans newest → oldest with a `handled` set; a PUTALL is scanned member
by member *in forward order*, so within one PUTALL the first member of a key wins in the index
while the last one wins in a replay: the two agree because a PUTALL is built from a Go map, whose
keys are unique (`DocWF`).
-/
namespace Orbit

/-- member keys of every PUTALL are unique (it is built from a Go map) -/
def DocWF (vs : List Entry) : Prop :=
  ∀ e ∈ vs, ∀ docs, e.op = .putAll docs → (docs.map (·.1)).Nodup

/-- the operation writes document key `k` (PUT/DEL of the empty key write nothing) -/
def docOpWrites : Op → String → Prop
  | .put k' _, k => k' = k ∧ k ≠ ""
  | .del k', k => k' = k ∧ k ≠ ""
  | .putAll docs, k => k ∈ docs.map (·.1)
  | _, _ => False

/-- some operation of the listing writes document key `k` -/
def docMentions (vs : List Entry) (k : String) : Prop := ∃ e ∈ vs, docOpWrites e.op k

/-- the atomic writes of a document operation -/
def docWop : Op → List Wr
  | .put k v => if k == "" then [] else [(k, some v)]
  | .del k => if k == "" then [] else [(k, none)]
  | .putAll docs => docs.map (fun d => (d.1, some d.2))
  | _ => []

def docW (e : Entry) : List Wr := docWop e.op

/-! ### bridging the model definitions to the generic scan/replay -/

theorem docReplayStep_eq (m : KV) (e : Entry) : docReplayStep m e = (docW e).foldl applyW m := by
  unfold docReplayStep docW
  cases e.op with
  | put k v => by_cases hk : k = "" <;> simp [docWop, hk, applyW]
  | del k => by_cases hk : k = "" <;> simp [docWop, hk, applyW]
  | putAll docs => simp only [docWop, List.foldl_map, applyW]
  | add v => rfl
  | other => rfl

theorem docReplay_eq (vs : List Entry) : docReplay vs = replayW docW vs :=
  foldl_eq_flat docReplayStep applyW docW vs [] (fun e _ acc => docReplayStep_eq acc e)

theorem docStep_eq (acc : List String × KV) (e : Entry) :
    docStepWith docAllStep acc e = (docW e).foldl wStep acc := by
  unfold docStepWith docW
  cases e.op with
  | put k v => by_cases hk : k = "" <;> simp [docWop, hk, wStep, applyW]
  | del k => by_cases hk : k = "" <;> simp [docWop, hk, wStep, applyW]
  | putAll docs =>
    simp only [docWop, List.foldl_map]
    rfl
  | add v => rfl
  | other => rfl

theorem docUpdate_eq (idx : KV) (vs : List Entry) : docUpdate idx vs = scanW docW idx vs := by
  unfold docUpdate docUpdateWith scanW
  rw [foldl_eq_flat (docStepWith docAllStep) wStep docW vs.reverse ([], idx)
    (fun e _ acc => docStep_eq acc e)]

theorem docW_keys (e : Entry) (k : String) : k ∈ (docW e).map (·.1) ↔ docOpWrites e.op k := by
  unfold docW
  cases e.op with
  | put k' v =>
    by_cases hk : k' = ""
    · simp only [docWop, docOpWrites, hk, beq_self_eq_true, if_true, List.map_nil,
        List.not_mem_nil, false_iff, not_and, Classical.not_not]
      exact fun h => h.symm
    · simp only [docWop, docOpWrites, beq_iff_eq, hk, if_false, List.map_cons, List.map_nil,
        List.mem_singleton]
      exact ⟨fun h => ⟨h.symm, h ▸ hk⟩, fun h => h.1.symm⟩
  | del k' =>
    by_cases hk : k' = ""
    · simp only [docWop, docOpWrites, hk, beq_self_eq_true, if_true, List.map_nil,
        List.not_mem_nil, false_iff, not_and, Classical.not_not]
      exact fun h => h.symm
    · simp only [docWop, docOpWrites, beq_iff_eq, hk, if_false, List.map_cons, List.map_nil,
        List.mem_singleton]
      exact ⟨fun h => ⟨h.symm, h ▸ hk⟩, fun h => h.1.symm⟩
  | putAll docs => simp [docWop, docOpWrites, List.map_map]
  | add v => simp [docWop, docOpWrites]
  | other => simp [docWop, docOpWrites]

theorem writesW_docW_iff (vs : List Entry) (k : String) : writesW docW vs k ↔ docMentions vs k :=
  ⟨fun ⟨e, he, hk⟩ => ⟨e, he, (docW_keys e k).mp hk⟩,
   fun ⟨e, he, hk⟩ => ⟨e, he, (docW_keys e k).mpr hk⟩⟩

theorem nodupW_docW {vs : List Entry} (hwf : DocWF vs) : NodupW docW vs := by
  intro e he
  unfold docW
  cases ho : e.op with
  | put k v => by_cases hk : k = "" <;> simp [docWop, hk]
  | del k => by_cases hk : k = "" <;> simp [docWop, hk]
  | putAll docs =>
    have := hwf e he docs ho
    simp only [docWop, List.map_map]
    exact this
  | add v => simp [docWop]
  | other => simp [docWop]

/-- a key present in the replay is written by the listing -/
theorem docMentions_of_get_docReplay {vs : List Entry} {k : String}
    (h : (KV.get (docReplay vs) k).isSome) : docMentions vs k := by
  rw [docReplay_eq] at h
  exact (writesW_docW_iff vs k).mp (writesW_of_get_replayW h)

/-! ### main theorems -/

/-- **document index (fixed) = replay.** -/
theorem docUpdate_eq_replay (idx : KV) (vs : List Entry) (hwf : DocWF vs)
    (hpre : ∀ k, (KV.get idx k).isSome → docMentions vs k) :
    KV.equiv (docUpdate idx vs) (docReplay vs) := by
  rw [docUpdate_eq, docReplay_eq]
  exact scanW_eq_replayW docW idx vs (nodupW_docW hwf)
    (fun k hk => (writesW_docW_iff vs k).mpr (hpre k hk))

theorem doc_inv_step (idx : KV) (vs vs' : List Entry) (hwf : DocWF vs')
    (hinv : KV.equiv idx (docReplay vs)) (hsub : ∀ e ∈ vs, e ∈ vs') :
    KV.equiv (docUpdate idx vs') (docReplay vs') := by
  apply docUpdate_eq_replay idx vs' hwf
  intro k hk
  rw [hinv k] at hk
  obtain ⟨e, he, hke⟩ := docMentions_of_get_docReplay hk
  exact ⟨e, hsub e he, hke⟩

theorem doc_inv_chain (l : List (List Entry)) (hg : Grows l) (hwf : ∀ vs ∈ l, DocWF vs) :
    KV.equiv (l.foldl docUpdate []) (docReplay (l.getLastD [])) :=
  inv_chain_gen docUpdate docReplay DocWF doc_inv_step l [] [] (KV.equiv_refl _)
    (grows_nil_cons l hg) hwf

/-! ### the pinned tree is wrong (finding F1) -/

private def mk (h : Nat) (nx : List Nat) (o : Op) : Entry :=
  { hash := h, logId := 1, time := h, cid := 0, next := nx, op := o }

/-- The pinned `UpdateIndex` marks `handled[""]` for a PUTALL member instead of the member's key:
an older PUT of the same document overrides a newer PUTALL, and a document deleted and re-added by
PUTALL stays deleted. The fixed loop agrees with replay on both listings. -/
theorem docPinned_witness :
    let a : Entry := { hash := 1, logId := 1, time := 1, cid := 0, next := [], op := .put "k" "v1" }
    let b : Entry := { hash := 2, logId := 1, time := 2, cid := 0, next := [1], op := .putAll [("k", "v2")] }
    let zs : List Entry :=
      [mk 1 [] (.putAll [("z", "a")]), mk 2 [1] (.del "z"), mk 3 [2] (.putAll [("z", "b")])]
    (KV.get (docUpdatePinned [] [a, b]) "k" = some "v1" ∧ KV.get (docReplay [a, b]) "k" = some "v2"
      ∧ KV.get (docUpdate [] [a, b]) "k" = some "v2") ∧
    (KV.get (docUpdatePinned [] zs) "z" = none ∧ KV.get (docReplay zs) "z" = some "b"
      ∧ KV.get (docUpdate [] zs) "z" = some "b") := by
  decide

/-- `DocWF` is necessary: with a repeated member key the scan keeps the first member, replay the
last (cannot arise from a Go map) -/
theorem docUpdate_dupKey_witness :
    KV.get (docUpdate [] [mk 1 [] (.putAll [("k", "x"), ("k", "y")])]) "k" = some "x" ∧
    KV.get (docReplay [mk 1 [] (.putAll [("k", "x"), ("k", "y")])]) "k" = some "y" := by
  decide

/-! ### non-vacuity and necessity of the precondition -/

private def exVs : List Entry :=
  [mk 1 [] (.put "a" "1"), mk 2 [1] (.putAll [("b", "2"), ("a", "3")]), mk 3 [2] (.del "b"),
   mk 4 [3] (.put "" "ignored"), mk 5 [4] (.putAll [("c", "4")])]
private def exIdx : KV := [("a", "1"), ("b", "2")]

example : KV.equiv (docUpdate exIdx exVs) (docReplay exVs) := by
  apply docUpdate_eq_replay
  · intro e he docs ho
    simp only [exVs, List.mem_cons, List.not_mem_nil, or_false] at he
    rcases he with rfl | rfl | rfl | rfl | rfl <;> simp only [mk, Op.putAll.injEq, reduceCtorEq] at ho
      <;> subst ho <;> decide
  · intro k hk
    have : k = "a" ∨ k = "b" := by
      simp only [exIdx, KV.get_cons, KV.get_nil] at hk
      by_cases ha : k = "a"
      · exact Or.inl ha
      · by_cases hb : k = "b"
        · exact Or.inr hb
        · simp [ha, hb] at hk
    rcases this with rfl | rfl
    · exact ⟨mk 1 [] (.put "a" "1"), by simp [exVs], by simp [mk, docOpWrites]⟩
    · exact ⟨mk 2 [1] (.putAll [("b", "2"), ("a", "3")]), by simp [exVs], by simp [mk, docOpWrites]⟩

example : KV.get (docUpdate exIdx exVs) "a" = some "3" ∧ KV.get (docUpdate exIdx exVs) "b" = none ∧
    KV.get (docUpdate exIdx exVs) "c" = some "4" ∧ KV.get (docUpdate exIdx exVs) "" = none := by
  decide

/-- the index is never cleared: a stale document not written by the listing survives -/
theorem docUpdate_stale_witness :
    KV.get (docUpdate [("stale", "x")] [mk 1 [] (.put "a" "1")]) "stale" = some "x" ∧
    KV.get (docReplay [mk 1 [] (.put "a" "1")]) "stale" = none ∧
    ¬ docMentions [mk 1 [] (.put "a" "1")] "stale" := by
  refine ⟨by decide, by decide, ?_⟩
  rintro ⟨e, he, hk⟩
  simp only [List.mem_cons, List.not_mem_nil, or_false] at he
  subst he
  simp [mk, docOpWrites] at hk

/-! ### `Get`: which index keys match a search key -/

/-- `isInfix` is the list-infix relation, i.e. `strings.Contains` -/
theorem isInfix_iff (needle hay : List Char) : isInfix needle hay = true ↔ needle <:+: hay := by
  induction hay with
  | nil => simp [isInfix, List.infix_nil]
  | cons c t ih =>
    rw [isInfix, Bool.or_eq_true, List.isPrefixOf_iff_prefix, ih, List.infix_cons_iff]

/-- `docGetKeys` returns exactly the index keys that match the search key: equal (exact), equal
after lower-casing both (case-insensitive), or containing it as a substring (partial) -/
theorem docGetKeys_spec (idx : KV) (key : String) (ci pm : Bool) (k : String) :
    k ∈ docGetKeys idx key ci pm ↔ k ∈ idx.keys ∧
      (if pm then
        (if ci then lowerAscii key else key).toList <:+: (if ci then lowerAscii k else k).toList
       else (if ci then lowerAscii k else k) = (if ci then lowerAscii key else key)) := by
  unfold docGetKeys
  simp only [List.mem_filter]
  cases pm <;> simp [strContains, isInfix_iff]

theorem docGetKeys_exact (idx : KV) (key k : String) :
    k ∈ docGetKeys idx key false false ↔ k ∈ idx.keys ∧ k = key := by
  simp [docGetKeys_spec]

theorem docGetKeys_caseInsensitive (idx : KV) (key k : String) :
    k ∈ docGetKeys idx key true false ↔ k ∈ idx.keys ∧ lowerAscii k = lowerAscii key := by
  simp [docGetKeys_spec]

theorem docGetKeys_partial (idx : KV) (key k : String) :
    k ∈ docGetKeys idx key false true ↔ k ∈ idx.keys ∧ key.toList <:+: k.toList := by
  simp [docGetKeys_spec]

theorem docGetKeys_partial_caseInsensitive (idx : KV) (key k : String) :
    k ∈ docGetKeys idx key true true ↔
      k ∈ idx.keys ∧ (lowerAscii key).toList <:+: (lowerAscii k).toList := by
  simp [docGetKeys_spec]

example : docGetKeys [("Doc1", "x"), ("doc2", "y"), ("other", "z")] "oc" false true = ["Doc1", "doc2"] := by
  decide

end Orbit
