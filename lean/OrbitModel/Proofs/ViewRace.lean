import OrbitModel.Model.ViewRace
/-!
# With the copy taken under the lock the view never lags behind a returned write   (F19)
-/
namespace Orbit.View

/-- Invariant of the repaired protocol: the view never runs ahead of the log, nobody is between copy
and write, every entry number is at most the log length, and every writer that has returned finds
its entry in the view. -/
structure Inv (s : St) : Prop where
  view_le : s.view ≤ s.logLen
  bounds  : ∀ pc ∈ s.pcs, (∀ e, pc = .appended e → e ≤ s.logLen) ∧ (∀ e k, pc ≠ .copied e k) ∧
              (∀ e, pc = .done e → e ≤ s.view)

theorem inv_init (n : Nat) : Inv (init n) := by
  refine ⟨Nat.le_refl _, ?_⟩
  intro pc hpc
  have : pc = .start := by simp [init] at hpc; exact hpc.2
  subst this
  refine ⟨?_, ?_, ?_⟩ <;> intros <;> simp_all

theorem mem_set_cases {α : Type} {l : List α} {i : Nat} {a x : α} (h : x ∈ l.set i a) : x = a ∨ x ∈ l := by
  rcases List.mem_or_eq_of_mem_set h with h | h
  · exact Or.inr h
  · exact Or.inl h

theorem inv_step (s : St) (i : Nat) (hi : Inv s) : Inv (step true s i) := by
  unfold step
  cases hpc : s.pcs[i]? with
  | none => exact hi
  | some pc =>
    have hmem : pc ∈ s.pcs := List.mem_of_getElem? hpc
    cases pc with
    | done e => exact hi
    | copied e k => exact absurd rfl ((hi.bounds _ hmem).2.1 e k)
    | start =>
      refine ⟨Nat.le_succ_of_le hi.view_le, ?_⟩
      intro pc hm
      rcases mem_set_cases hm with h | h
      · subst h
        refine ⟨?_, ?_, ?_⟩
        · intro e he; cases he; exact Nat.le_refl _
        · intro e k he; cases he
        · intro e he; cases he
      · obtain ⟨h1, h2, h3⟩ := hi.bounds pc h
        exact ⟨fun e he => Nat.le_succ_of_le (h1 e he), h2, h3⟩
    | appended e =>
      simp only [if_true]
      have hle := (hi.bounds _ hmem).1 e rfl
      refine ⟨Nat.le_refl _, ?_⟩
      intro pc hm
      rcases mem_set_cases hm with h | h
      · subst h
        refine ⟨?_, ?_, ?_⟩
        · intro e' he; cases he
        · intro e' k he; cases he
        · intro e' he; cases he; exact hle
      · obtain ⟨h1, h2, h3⟩ := hi.bounds pc h
        exact ⟨h1, h2, fun e' he => Nat.le_trans (h3 e' he) hi.view_le⟩

theorem inv_run (n : Nat) (sched : List Nat) : Inv (run true (init n) sched) := by
  unfold run
  suffices ∀ s, Inv s → Inv (sched.foldl (step true) s) from this _ (inv_init n)
  induction sched with
  | nil => intro s h; exact h
  | cons i rest ih => intro s h; exact ih _ (inv_step s i h)

/-- **Every returned write is reflected by the view**, for every number of writers and every
schedule: a writer that has returned with entry `e` finds the view built from at least the first
`e` entries of the log. -/
theorem returned_writes_are_in_the_view (n : Nat) (sched : List Nat) :
    ∀ pc ∈ (run true (init n) sched).pcs, ∀ e, pc = .done e → e ≤ (run true (init n) sched).view :=
  fun pc hpc => ((inv_run n sched).bounds pc hpc).2.2

/-- the writer of the newest entry is always among the writers (locked protocol) -/
def HasLast (s : St) : Prop := s.logLen = 0 ∨ (.appended s.logLen) ∈ s.pcs ∨ (.done s.logLen) ∈ s.pcs

theorem mem_set_of_ne {α : Type} {l : List α} {i : Nat} {a x : α} (hx : x ∈ l) (hne : l[i]? ≠ some x) :
    x ∈ l.set i a := by
  obtain ⟨j, hj⟩ := List.getElem?_of_mem hx
  have hij : i ≠ j := by intro h; subst h; exact hne hj
  exact List.mem_of_getElem? (by rw [List.getElem?_set_ne hij]; exact hj)

theorem hasLast_step (s : St) (i : Nat) (hi : Inv s) (hl : HasLast s) : HasLast (step true s i) := by
  unfold step
  cases hpc : s.pcs[i]? with
  | none => exact hl
  | some pc =>
    have hlt : i < s.pcs.length := by
      rcases Nat.lt_or_ge i s.pcs.length with h | h
      · exact h
      · rw [List.getElem?_eq_none h] at hpc; cases hpc
    have hmem : pc ∈ s.pcs := List.mem_of_getElem? hpc
    cases pc with
    | done e => exact hl
    | copied e k => exact absurd rfl ((hi.bounds _ hmem).2.1 e k)
    | start =>
      right; left
      exact List.mem_of_getElem? (List.getElem?_set_self hlt)
    | appended e =>
      simp only [if_true]
      rcases hl with h0 | ha | hd
      · left; exact h0
      · by_cases he : e = s.logLen
        · subst he; right; right
          exact List.mem_of_getElem? (List.getElem?_set_self hlt)
        · right; left
          apply mem_set_of_ne ha
          rw [hpc]; intro h; cases h; exact he rfl
      · right; right
        apply mem_set_of_ne hd
        rw [hpc]; intro h; cases h

theorem hasLast_run (n : Nat) (sched : List Nat) : HasLast (run true (init n) sched) := by
  unfold run
  suffices ∀ s, Inv s → HasLast s → HasLast (sched.foldl (step true) s) from
    this _ (inv_init n) (Or.inl rfl)
  induction sched with
  | nil => intro s _ h; exact h
  | cons i rest ih => intro s hi hl; exact ih _ (inv_step s i hi) (hasLast_step s i hi hl)

/-- **When every writer has returned the view reflects the whole log**, for every number of writers
and every schedule. -/
theorem view_complete_when_all_returned (n : Nat) (sched : List Nat)
    (hd : allDone (run true (init n) sched) = true) :
    (run true (init n) sched).view = (run true (init n) sched).logLen := by
  have hi := inv_run n sched
  have hl := hasLast_run n sched
  generalize run true (init n) sched = s at *
  apply Nat.le_antisymm hi.view_le
  rcases hl with h0 | ha | hdn
  · omega
  · unfold allDone at hd
    have := List.all_eq_true.mp hd _ ha
    simp at this
  · exact (hi.bounds _ hdn).2.2 _ rfl

/-- Refutation witness for the tree before the repair (finding F19): writer 0 appends and copies the
log (1 entry), writer 1 appends, copies (2 entries) and writes, writer 0 writes its older copy last:
both have returned, the log has 2 entries and the view reflects 1. -/
theorem unlocked_copy_leaves_a_stale_view :
    let s := run false (init 2) [0, 0, 1, 1, 1, 0]
    allDone s = true ∧ s.logLen = 2 ∧ s.view = 1 := by decide

/-- the same schedule after the repair -/
example : let s := run true (init 2) [0, 0, 1, 1, 1, 0]
    allDone s = true ∧ s.logLen = 2 ∧ s.view = 2 := by decide

end Orbit.View
