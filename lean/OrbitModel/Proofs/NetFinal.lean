import OrbitModel.Proofs.NetConverge
/-!
# A canonical final phase, and executable checkers (C02)

* `canonFinal u s`: for every ordered pair, `send i j` immediately followed by the handling of that
  message; it is always valid and is a `FinalPhase` -- so the hypothesis of `converge` is satisfiable
  from every reachable state (`converge_canon`).
* `validRunB`, `finalPhaseB`: Boolean checkers, sound for `ValidRun` / `FinalPhase`, used by the
  concrete examples.
-/
namespace Orbit.Net

/-! ## the canonical final phase -/

def headsOf (s : State) (i : Nat) : List Nat :=
  match s.reps[i]? with
  | some r => r.heads
  | none => []

/-- `i` announces to `j`, `j` handles that message at once; its cache afterwards: both head lists -/
def exch (s : State) (i j : Nat) : List Act :=
  [.send i j, .recv s.soup.length (headsOf s j ++ headsOf s i)]

def canon (u : Univ) : State → List (Nat × Nat) → List Act
  | _, [] => []
  | s, (i, j) :: ps => exch s i j ++ canon u (run u s (exch s i j)) ps

def pairs (n : Nat) : List (Nat × Nat) :=
  (List.range n).flatMap fun i => ((List.range n).filter (· != i)).map fun j => (i, j)

def canonFinal (u : Univ) (s : State) : List Act := canon u s (pairs s.reps.length)

theorem mem_pairs {n i j : Nat} (hi : i < n) (hj : j < n) (hij : i ≠ j) : (i, j) ∈ pairs n := by
  simp only [pairs, List.mem_flatMap, List.mem_range, List.mem_map, List.mem_filter, bne_iff_ne]
  exact ⟨i, hi, j, ⟨hj, fun h => hij h.symm⟩, rfl⟩

theorem ancAll_append (u : Univ) (a b : List Nat) : ancAll u (a ++ b) = ancAll u a ++ ancAll u b := by
  simp only [ancAll, List.flatMap_append]

theorem validRun_exch (u : Univ) (s : State) (i j : Nat) (hc : Covers u s) :
    ValidRun u s (exch s i j) := by
  refine ⟨trivial, ?_, trivial⟩
  intro m hm r hr x hx
  cases hi : s.reps[i]? with
  | none =>
    simp only [step, hi] at hm
    simp only [List.getElem?_eq_none (Nat.le_refl _)] at hm
    cases hm
  | some ri =>
    simp only [step, hi, List.getElem?_append_right (Nat.le_refl _), Nat.sub_self,
      List.getElem?_cons_zero, Option.some.injEq] at hm hr
    subst hm
    simp only [headsOf, hi, hr, ancAll_append, List.mem_append]
    rcases hx with hx | hx
    · exact Or.inl (covers_iff.mp hc j r hr x hx)
    · exact Or.inr hx

theorem validRun_canon (u : Univ) (s : State) (ps : List (Nat × Nat)) (hc : Covers u s) :
    ValidRun u s (canon u s ps) := by
  induction ps generalizing s with
  | nil => trivial
  | cons p ps ih =>
    obtain ⟨i, j⟩ := p
    have h := validRun_exch u s i j hc
    exact validRun_append.mpr ⟨h, ih _ (covers_run u s _ hc h)⟩

theorem noWrite_canon (u : Univ) (s : State) (ps : List (Nat × Nat)) :
    ∀ a ∈ canon u s ps, a.isWrite = false := by
  induction ps generalizing s with
  | nil => intro a ha; cases ha
  | cons p ps ih =>
    obtain ⟨i, j⟩ := p
    intro a ha
    simp only [canon, exch, List.cons_append, List.nil_append, List.mem_cons] at ha
    rcases ha with rfl | rfl | ha
    · rfl
    · rfl
    · exact ih _ a ha

theorem delivers_append_left {u : Univ} {s : State} {as rest : List Act} {i j : Nat}
    (h : Delivers u (run u s as) rest i j) : Delivers u s (as ++ rest) i j := by
  obtain ⟨pre, mid, post, c, rfl⟩ := h
  refine ⟨as ++ pre, mid, post, c, ?_⟩
  rw [run_append, List.append_assoc]

theorem delivers_canon (u : Univ) (s : State) (ps : List (Nat × Nat)) (i j : Nat)
    (h : (i, j) ∈ ps) : Delivers u s (canon u s ps) i j := by
  induction ps generalizing s with
  | nil => cases h
  | cons p ps ih =>
    obtain ⟨i', j'⟩ := p
    rcases List.mem_cons.mp h with h | h
    · cases h
      exact ⟨[], [], _, _, rfl⟩
    · exact delivers_append_left (ih _ h)

theorem finalPhase_canonFinal (u : Univ) (s : State) :
    FinalPhase u s s.reps.length (canonFinal u s) :=
  ⟨noWrite_canon u s _, fun i j hi hj hij => delivers_canon u s _ i j (mem_pairs hi hj hij)⟩

/-- the final-phase hypothesis is satisfiable from every state satisfying `Covers` -/
theorem exists_finalPhase (u : Univ) (s : State) (hc : Covers u s) :
    ∃ fin, ValidRun u s fin ∧ FinalPhase u s s.reps.length fin :=
  ⟨canonFinal u s, validRun_canon u s _ hc, finalPhase_canonFinal u s⟩

/-- any valid history from the initial state, then the canonical exchange: all replicas hold all
acknowledged writes (no hypothesis on the final phase left). -/
theorem converge_canon (u : Univ) (n : Nat) (pre : List Act) (hv : ValidRun u (init n) pre) :
    let s := run u (init n) (pre ++ canonFinal u (run u (init n) pre))
    ∀ r ∈ s.reps, ∀ h ∈ s.acked, h ∈ r.held := by
  have hinv := reachable_inv u n pre hv
  refine converge_from_init u n pre _ (validRun_append.mpr ⟨hv, validRun_canon u _ _ hinv.1⟩) ?_
  have := finalPhase_canonFinal u (run u (init n) pre)
  rw [hinv.2.2] at this
  exact this

/-! ## Boolean checkers -/

def validB (u : Univ) (s : State) : Act → Bool
  | .write i h => match s.reps[i]? with
    | some r => (u.anc h).all (fun x => x == h || r.held.contains x) &&
        r.held.all (fun x => (u.anc h).contains x)
    | none => true
  | .recv k cache => match s.soup[k]? with
    | some m => match s.reps[m.dst]? with
      | some r => (r.held ++ ancAll u m.heads).all (fun x => (ancAll u cache).contains x)
      | none => true
    | none => true
  | _ => true

def validRunB (u : Univ) : State → List Act → Bool
  | _, [] => true
  | s, a :: as => validB u s a && validRunB u (step u s a) as

theorem valid_of_validB {u : Univ} {s : State} {a : Act} (h : validB u s a = true) : Valid u s a := by
  cases a with
  | write i w =>
    intro r hr
    simp only [validB, hr, Bool.and_eq_true, List.all_eq_true, Bool.or_eq_true, beq_iff_eq,
      List.contains_iff_mem] at h
    exact h
  | recv k c =>
    intro m hm r hr x hx
    simp only [validB, hm, hr, List.all_eq_true, List.mem_append, List.contains_iff_mem] at h
    exact h x hx
  | send i j => trivial
  | restart i => trivial
  | fault => trivial

theorem validRun_of_validRunB {u : Univ} {s : State} {as : List Act} (h : validRunB u s as = true) :
    ValidRun u s as := by
  induction as generalizing s with
  | nil => trivial
  | cons a as ih =>
    simp only [validRunB, Bool.and_eq_true] at h
    exact ⟨valid_of_validB h.1, ih h.2⟩

def isRecvAt (k : Nat) : Act → Bool
  | .recv k' _ => k' == k
  | _ => false

def isSend (i j : Nat) : Act → Bool
  | .send i' j' => i' == i && j' == j
  | _ => false

def deliversB (u : Univ) : State → List Act → Nat → Nat → Bool
  | _, [], _, _ => false
  | s, a :: as, i, j =>
    (isSend i j a && as.any (isRecvAt s.soup.length)) || deliversB u (step u s a) as i j

def finalPhaseB (u : Univ) (s : State) (n : Nat) (fin : List Act) : Bool :=
  fin.all (fun a => !a.isWrite) &&
    (List.range n).all fun i => (List.range n).all fun j => i == j || deliversB u s fin i j

theorem delivers_of_deliversB {u : Univ} {s : State} {fin : List Act} {i j : Nat}
    (h : deliversB u s fin i j = true) : Delivers u s fin i j := by
  induction fin generalizing s with
  | nil => cases h
  | cons a as ih =>
    simp only [deliversB, Bool.or_eq_true, Bool.and_eq_true, List.any_eq_true] at h
    rcases h with ⟨hs, b, hb, hr⟩ | h
    · obtain ⟨mid, post, rfl⟩ := List.append_of_mem hb
      cases a with
      | send i' j' =>
        simp only [isSend, Bool.and_eq_true, beq_iff_eq] at hs
        obtain ⟨rfl, rfl⟩ := hs
        cases b with
        | recv k c =>
          simp only [isRecvAt, beq_iff_eq] at hr
          subst hr
          exact ⟨[], mid, post, c, rfl⟩
        | write _ _ => cases hr
        | send _ _ => cases hr
        | restart _ => cases hr
        | fault => cases hr
      | write _ _ => cases hs
      | recv _ _ => cases hs
      | restart _ => cases hs
      | fault => cases hs
    · exact delivers_append_left (as := [a]) (ih h)

theorem finalPhase_of_finalPhaseB {u : Univ} {s : State} {n : Nat} {fin : List Act}
    (h : finalPhaseB u s n fin = true) : FinalPhase u s n fin := by
  simp only [finalPhaseB, Bool.and_eq_true, List.all_eq_true, List.mem_range, Bool.or_eq_true,
    beq_iff_eq, Bool.not_eq_true'] at h
  refine ⟨h.1, fun i j hi hj hij => ?_⟩
  rcases h.2 i hi j hj with h | h
  · exact absurd h hij
  · exact delivers_of_deliversB h

end Orbit.Net
