import OrbitModel.Generated.GenLoad
import OrbitModel.Model.Store
/-!
# Regenerated Go fragment = hand-written model (tie 2); one small module per fragment, so that a
change to one Go function only stops the theorems tied to it
-/
namespace Orbit

/-- the limit normalisation at the top of `Load` in the Go text of this run is the model's `loadAmount` -/
theorem gen_loadAmount (amount : Int) (mh : Option Int) :
    Gen.genLoadAmount mh.isSome (mh.getD 0) amount = loadAmount amount mh := by
  unfold Gen.genLoadAmount loadAmount
  cases mh with
  | none =>
    simp only [Option.isSome_none, Bool.and_false, Bool.false_eq_true, if_false]
    by_cases h : amount ≤ 0 <;> simp [h]
  | some m =>
    simp only [Option.isSome_some, Bool.and_true, Option.getD_some, decide_eq_true_eq]

end Orbit
