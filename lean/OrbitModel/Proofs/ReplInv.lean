import OrbitModel.Proofs.ReplEnq
/-!
# Replicator: the safety invariant `Inv`

`InvS` — the structural part (workers ↔ tasks ↔ queue, buffer/pending/log contents; a worker
between `processItems` and `processEntryDone` — pc `finishing` — has task `fetching`, holds a slot and
its log is in the buffer); `Closure` — no hole is ever forgotten; `Inv` adds the semaphore count and "a non-empty buffer
means the replicator is not idle". This file: definitions, transfer lemmas, list helpers.
-/
namespace Orbit.Repl

def isWait (w : Worker) : Bool := w.pc == .waitSlot
/-- the worker holds a slot and is counted by `taskInProgress`: inside the fetch, or between
`processItems` and `processEntryDone` -/
def isHold (w : Worker) : Bool := w.pc != .waitSlot

@[simp] theorem isHold_wait (c h : Nat) : isHold ⟨c, h, .waitSlot⟩ = false := rfl
@[simp] theorem isHold_fetching (c h : Nat) : isHold ⟨c, h, .fetching⟩ = true := rfl
@[simp] theorem isHold_finishing (c h : Nat) : isHold ⟨c, h, .finishing⟩ = true := rfl
@[simp] theorem isWait_wait (c h : Nat) : isWait ⟨c, h, .waitSlot⟩ = true := rfl
@[simp] theorem isWait_fetching (c h : Nat) : isWait ⟨c, h, .fetching⟩ = false := rfl
@[simp] theorem isWait_finishing (c h : Nat) : isWait ⟨c, h, .finishing⟩ = false := rfl

structure InvS (net : Nat → Info) (s : St) : Prop where
  /-- `inProgress` counts the workers that hold a slot (fetching or finishing) -/
  inprog_eq : s.inProgress = s.workers.countP isHold
  keys_nodup : (s.tasks.map (·.1)).Nodup
  /-- at most one worker per hash -/
  w_nodup : (s.workers.map (·.item)).Nodup
  /-- a waiting worker's item has task `added`, a fetching or finishing worker's item has task
  `fetching` -/
  w_task : ∀ w ∈ s.workers, task s w.item = some (tsOf w.pc)
  /-- every unfinished task has its worker (nothing is ever orphaned) -/
  task_w : ∀ h t, task s h = some t → t ≠ .fetched → ∃ w ∈ s.workers, w.item = h ∧ tsOf w.pc = t
  /-- the queue is exactly the items of the waiting workers, in spawn order -/
  queue_eq : s.queue = (s.workers.filter isWait).map (·.item)
  /-- a flushed batch holds finished tasks only -/
  pend_fetched : ∀ b ∈ s.pending, ∀ h ∈ b, task s h = some .fetched ∧ (net h).foreign = false
  /-- a buffered log belongs to a finished task, or to a worker that is about to finish -/
  buf_got : ∀ h ∈ s.buffer, got s h ∧ (net h).foreign = false
  /-- a finishing worker's log is in the buffer, unless it was written for another log -/
  fin_buf : ∀ w ∈ s.workers, w.pc = .finishing → (net w.item).foreign = false → w.item ∈ s.buffer
  buf_nodup : s.buffer.Nodup
  log_nodup : s.log.Nodup
  log_ok : ∀ h ∈ s.log, task s h = some .fetched ∧ (net h).valid = true ∧ (net h).foreign = false
  /-- an accepted entry that was fetched is in the oplog or on its way there -/
  fetched_in : ∀ h, task s h = some .fetched → (net h).valid = true → (net h).foreign = false →
    h ∈ s.log ∨ inBP s h

/-- **no hole is ever forgotten**: every link of a fetched entry of this log (its task is `fetched`,
or its worker has queued its parents and is about to mark it `fetched`) is in the oplog, has a task,
or is remembered for retry -/
def Closure (net : Nat → Info) (s : St) : Prop :=
  ∀ h, got s h → (net h).foreign = false → ∀ l ∈ (net h).links, tracked s l

structure Inv (net : Nat → Info) (c : Nat) (s : St) : Prop extends InvS net s where
  closure : Closure net s
  sem_eq : s.sem + s.inProgress = c
  buf_idle : s.buffer ≠ [] → isIdle s = false

theorem task_congr {s s' : St} (h : s'.tasks = s.tasks) (k : Nat) : task s' k = task s k := by
  simp only [task_def, h]

theorem finAt_congr {s s' : St} (h : s'.workers = s.workers) (k : Nat) : finAt s' k ↔ finAt s k := by
  simp only [finAt, h]

theorem got_congr {s s' : St} (h2 : s'.workers = s.workers) (h3 : s'.tasks = s.tasks) (k : Nat) :
    got s' k ↔ got s k := by
  simp only [got, task_congr h3, finAt_congr h2]

/-- a finishing worker's task is `fetching` -/
theorem InvS.finAt_task {net : Nat → Info} {s : St} (h : InvS net s) {k : Nat} (hk : finAt s k) :
    task s k = some .fetching := by
  obtain ⟨w, hw, rfl, hp⟩ := hk
  have := h.w_task w hw
  rw [hp] at this; exact this

/-- what sits in the buffer or in a pending batch has been fetched and belongs to this log -/
theorem InvS.bp_got {net : Nat → Info} {s : St} (h : InvS net s) (k : Nat) (hk : inBP s k) :
    got s k ∧ (net k).foreign = false := by
  rcases hk with hk | ⟨b, hb, hk⟩
  · exact h.buf_got k hk
  · exact ⟨Or.inl (h.pend_fetched b hb k hk).1, (h.pend_fetched b hb k hk).2⟩

theorem InvS.congr {net : Nat → Info} {s s' : St} (h : InvS net s)
    (h1 : s'.inProgress = s.inProgress) (h2 : s'.workers = s.workers) (h3 : s'.tasks = s.tasks)
    (h4 : s'.queue = s.queue) (h5 : s'.log = s.log) (h6 : s'.buffer = s.buffer)
    (h7 : s'.pending = s.pending) : InvS net s' where
  inprog_eq := by rw [h1, h2]; exact h.inprog_eq
  keys_nodup := by rw [h3]; exact h.keys_nodup
  w_nodup := by rw [h2]; exact h.w_nodup
  w_task := by intro w hw; rw [task_congr h3]; exact h.w_task w (h2 ▸ hw)
  task_w := by intro k t; rw [task_congr h3, h2]; exact h.task_w k t
  queue_eq := by rw [h4, h2]; exact h.queue_eq
  pend_fetched := by intro b hb k hk; rw [task_congr h3]; exact h.pend_fetched b (h7 ▸ hb) k hk
  buf_got := by intro k hk; rw [got_congr h2 h3]; exact h.buf_got k (h6 ▸ hk)
  fin_buf := by intro w hw; rw [h6]; exact h.fin_buf w (h2 ▸ hw)
  buf_nodup := by rw [h6]; exact h.buf_nodup
  log_nodup := by rw [h5]; exact h.log_nodup
  log_ok := by intro k hk; rw [task_congr h3]; exact h.log_ok k (h5 ▸ hk)
  fetched_in := by
    intro k; rw [task_congr h3, h5, inBP_congr h6 h7]; exact h.fetched_in k

/-- `idle()` keeps the structural invariant: it only fires when every task is `fetched`, so no worker
is left and everything in the buffer belongs to a finished task -/
theorem InvS.flush {net : Nat → Info} {s : St} (h : InvS net s) : InvS net (flush s) := by
  rcases flush_cases s with e | ⟨hidle, _, e⟩
  · rw [e]; exact h
  · have hnf : ∀ k, ¬ finAt s k := fun k hk => by
      have := isIdle_false_of_task (h.finAt_task hk) (by simp)
      rw [hidle] at this; cases this
    rw [e]
    refine ⟨h.inprog_eq, h.keys_nodup, h.w_nodup, h.w_task, h.task_w, h.queue_eq, ?_, ?_, ?_,
      List.nodup_nil, h.log_nodup, h.log_ok, ?_⟩
    · intro b hb k hk
      rcases List.mem_append.1 hb with hb | hb
      · exact h.pend_fetched b hb k hk
      · rw [List.mem_singleton.1 hb] at hk
        rcases h.buf_got k hk with ⟨hg | hg, hf⟩
        · exact ⟨hg, hf⟩
        · exact absurd hg (hnf k)
    · intro k hk; cases hk
    · intro w hw hp _
      exact absurd ⟨w, hw, rfl, hp⟩ (hnf w.item)
    · intro k hk hv hf
      rcases h.fetched_in k hk hv hf with h' | h'
      · exact Or.inl h'
      · exact Or.inr (e ▸ (inBP_flush s k).2 h')

theorem tracked_congr {s s' : St} (h1 : s'.log = s.log) (h2 : s'.tasks = s.tasks)
    (h3 : s'.failed = s.failed) (k : Nat) : tracked s' k ↔ tracked s k := by
  simp only [tracked, h1, task_congr h2, h3]

/-- a hash stays tracked when the oplog and the task table only grow and a forgotten task is
remembered in `failed` -/
theorem tracked_of {s s' : St} (hl : ∀ k ∈ s.log, k ∈ s'.log)
    (ht : ∀ k, task s k ≠ none → task s' k ≠ none ∨ k ∈ s'.failed)
    (hf : ∀ k ∈ s.failed, k ∈ s'.failed) (h : Nat) : tracked s h → tracked s' h := by
  rintro (h' | h' | h')
  · exact Or.inl (hl h h')
  · rcases ht h h' with h'' | h''
    · exact Or.inr (Or.inl h'')
    · exact Or.inr (Or.inr h'')
  · exact Or.inr (Or.inr (hf h h'))

/-- `Closure` moves along a step that fetches nothing of this log and forgets no hash -/
theorem Closure.transfer {net : Nat → Info} {s s' : St} (h : Closure net s)
    (hg : ∀ k, (net k).foreign = false → got s' k → got s k)
    (ht : ∀ l, tracked s l → tracked s' l) : Closure net s' :=
  fun k hk hf l hl => ht l (h k (hg k hf hk) hf l hl)

theorem Closure.congr {net : Nat → Info} {s s' : St} (h : Closure net s) (h1 : s'.log = s.log)
    (h2 : s'.tasks = s.tasks) (h3 : s'.failed = s.failed) (h4 : s'.workers = s.workers) :
    Closure net s' :=
  h.transfer (fun k _ hk => (got_congr h4 h2 k).1 hk) (fun l hl => (tracked_congr h1 h2 h3 l).2 hl)

/-- closing a step: flush, then give `d` slots back -/
theorem Inv.flushed {net : Nat → Info} {c : Nat} {s : St} (d : Nat) (h : InvS net s)
    (hc : Closure net s) (hs : s.sem + d + s.inProgress = c) :
    Inv net c { flush s with sem := (flush s).sem + d } where
  toInvS := h.flush.congr rfl rfl rfl rfl rfl rfl rfl
  closure := hc.congr (flush_log s) (flush_tasks s) (flush_failed s) (flush_workers s)
  sem_eq := by show (flush s).sem + d + (flush s).inProgress = c; simpa using hs
  buf_idle := by
    intro hb
    exact (isIdle_congr (s' := { flush s with sem := (flush s).sem + d }) (s := flush s)
      rfl rfl rfl).trans (flush_buf_idle s hb)

/-! ### list helpers -/

theorem countP_spawn (ctx : Nat) (nw : List Nat) : (spawn ctx nw).countP isHold = 0 := by
  rw [List.countP_eq_zero]
  intro w hw
  obtain ⟨h, _, rfl⟩ := mem_spawn.1 hw
  simp

theorem filter_spawn (ctx : Nat) (nw : List Nat) : (spawn ctx nw).filter isWait = spawn ctx nw := by
  rw [List.filter_eq_self]
  intro w hw
  obtain ⟨h, _, rfl⟩ := mem_spawn.1 hw
  simp [isWait]

theorem nodup_split {l1 l2 : List Worker} {w : Worker}
    (h : ((l1 ++ w :: l2).map (·.item)).Nodup) :
    ((l1 ++ l2).map (·.item)).Nodup ∧ ∀ w' ∈ l1 ++ l2, w'.item ≠ w.item := by
  simp only [List.map_append, List.map_cons, List.nodup_append, List.nodup_cons, List.mem_map,
    List.mem_cons, ne_eq, forall_exists_index, and_imp] at h
  obtain ⟨h1, ⟨h2, h3⟩, h4⟩ := h
  refine ⟨?_, ?_⟩
  · simp only [List.map_append, List.nodup_append, List.mem_map, ne_eq, forall_exists_index, and_imp]
    refine ⟨h1, h3, ?_⟩
    intro a x hx hxa b y hy hyb
    exact h4 a x hx hxa b (Or.inr ⟨y, hy, hyb⟩)
  · intro w' hw' e
    rcases List.mem_append.1 hw' with hw' | hw'
    · exact h4 _ w' hw' rfl _ (Or.inl rfl) e
    · exact h2 ⟨w', hw', e⟩

theorem filter_ne_items {l : List Worker} {h : Nat} (p : Worker → Bool) (hn : ∀ w' ∈ l, w'.item ≠ h) :
    ((l.filter p).map (·.item)).filter (· != h) = (l.filter p).map (·.item) := by
  rw [List.filter_eq_self]
  intro a ha
  obtain ⟨w', hw', rfl⟩ := List.mem_map.1 ha
  have := hn w' (List.mem_filter.1 hw').1
  simp [this]

/-- removing / promoting the waiting worker at a position removes exactly its item from the queue -/
theorem queue_drop {l1 l2 : List Worker} {w : Worker} (hw : isWait w = true)
    (hn : ∀ w' ∈ l1 ++ l2, w'.item ≠ w.item) :
    (((l1 ++ w :: l2).filter isWait).map (·.item)).filter (· != w.item)
      = ((l1 ++ l2).filter isWait).map (·.item) := by
  have h1 : ∀ w' ∈ l1, w'.item ≠ w.item := fun w' h => hn w' (List.mem_append.2 (Or.inl h))
  have h2 : ∀ w' ∈ l2, w'.item ≠ w.item := fun w' h => hn w' (List.mem_append.2 (Or.inr h))
  simp only [List.filter_append, List.filter_cons, hw, if_true, List.map_append, List.map_cons]
  rw [filter_ne_items isWait h1]
  simp only [bne_self_eq_false, Bool.false_eq_true, if_false]
  rw [filter_ne_items isWait h2]

end Orbit.Repl
