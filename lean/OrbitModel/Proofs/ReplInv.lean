import OrbitModel.Proofs.ReplEnq
/-!
# Replicator: the safety invariant `Inv`

`InvS` — the structural part (workers ↔ tasks ↔ queue, buffer/pending/log contents);
`Closure` — no hole is ever forgotten; `Inv` adds the semaphore count and "a non-empty buffer
means the replicator is not idle". This file: definitions, transfer lemmas, list helpers.
-/
namespace Orbit.Repl

def isWait (w : Worker) : Bool := w.pc == .waitSlot
def isFetch (w : Worker) : Bool := w.pc == .fetching

structure InvS (net : Nat → Info) (s : St) : Prop where
  /-- `inProgress` counts the workers inside a fetch -/
  inprog_eq : s.inProgress = s.workers.countP isFetch
  keys_nodup : (s.tasks.map (·.1)).Nodup
  /-- at most one worker per hash -/
  w_nodup : (s.workers.map (·.item)).Nodup
  /-- a waiting worker's item has task `added`, a fetching worker's item has task `fetching` -/
  w_task : ∀ w ∈ s.workers, task s w.item = some (tsOf w.pc)
  /-- every unfinished task has its worker (nothing is ever orphaned) -/
  task_w : ∀ h t, task s h = some t → t ≠ .fetched → ∃ w ∈ s.workers, w.item = h ∧ tsOf w.pc = t
  /-- the queue is exactly the items of the waiting workers, in spawn order -/
  queue_eq : s.queue = (s.workers.filter isWait).map (·.item)
  bp_fetched : ∀ h, inBP s h → task s h = some .fetched ∧ (net h).foreign = false
  buf_nodup : s.buffer.Nodup
  log_nodup : s.log.Nodup
  log_ok : ∀ h ∈ s.log, task s h = some .fetched ∧ (net h).valid = true ∧ (net h).foreign = false
  /-- an accepted entry that was fetched is in the oplog or on its way there -/
  fetched_in : ∀ h, task s h = some .fetched → (net h).valid = true → (net h).foreign = false →
    h ∈ s.log ∨ inBP s h

/-- **no hole is ever forgotten**: every link of a fetched entry of this log is in the oplog, has a
task, or is remembered for retry -/
def Closure (net : Nat → Info) (s : St) : Prop :=
  ∀ h, task s h = some .fetched → (net h).foreign = false → ∀ l ∈ (net h).links, tracked s l

structure Inv (net : Nat → Info) (c : Nat) (s : St) : Prop extends InvS net s where
  closure : Closure net s
  sem_eq : s.sem + s.inProgress = c
  buf_idle : s.buffer ≠ [] → isIdle s = false

theorem task_congr {s s' : St} (h : s'.tasks = s.tasks) (k : Nat) : task s' k = task s k := by
  simp only [task_def, h]

theorem InvS.congr {net : Nat → Info} {s s' : St} (h : InvS net s)
    (h1 : s'.inProgress = s.inProgress) (h2 : s'.workers = s.workers) (h3 : s'.tasks = s.tasks)
    (h4 : s'.queue = s.queue) (h5 : s'.log = s.log) (h6 : ∀ k, inBP s' k ↔ inBP s k)
    (h7 : s.buffer.Nodup → s'.buffer.Nodup) : InvS net s' where
  inprog_eq := by rw [h1, h2]; exact h.inprog_eq
  keys_nodup := by rw [h3]; exact h.keys_nodup
  w_nodup := by rw [h2]; exact h.w_nodup
  w_task := by intro w hw; rw [task_congr h3]; exact h.w_task w (h2 ▸ hw)
  task_w := by intro k t; rw [task_congr h3, h2]; exact h.task_w k t
  queue_eq := by rw [h4, h2]; exact h.queue_eq
  bp_fetched := by intro k hk; rw [task_congr h3]; exact h.bp_fetched k ((h6 k).1 hk)
  buf_nodup := h7 h.buf_nodup
  log_nodup := by rw [h5]; exact h.log_nodup
  log_ok := by intro k hk; rw [task_congr h3]; exact h.log_ok k (h5 ▸ hk)
  fetched_in := by
    intro k; rw [task_congr h3, h5, h6]; exact h.fetched_in k

theorem tracked_congr {s s' : St} (h1 : s'.log = s.log) (h2 : s'.tasks = s.tasks)
    (h3 : s'.failed = s.failed) (k : Nat) : tracked s' k ↔ tracked s k := by
  simp only [tracked, h1, task_congr h2, h3]

theorem Closure.congr {net : Nat → Info} {s s' : St} (h : Closure net s) (h1 : s'.log = s.log)
    (h2 : s'.tasks = s.tasks) (h3 : s'.failed = s.failed) : Closure net s' := by
  intro k hk hf l hl
  rw [tracked_congr h1 h2 h3]
  rw [task_congr h2] at hk
  exact h k hk hf l hl

/-- finishing a step: flush, then give `d` slots back -/
theorem Inv.finish {net : Nat → Info} {c : Nat} {s : St} (d : Nat) (h : InvS net s)
    (hc : Closure net s) (hs : s.sem + d + s.inProgress = c) :
    Inv net c { flush s with sem := (flush s).sem + d } where
  toInvS := h.congr (flush_inProgress s) (flush_workers s) (flush_tasks s) (flush_queue s)
    (flush_log s) (fun k => (inBP_congr (s' := { flush s with sem := (flush s).sem + d })
      (s := flush s) rfl rfl k).trans (inBP_flush s k)) flush_buffer_nodup
  closure := hc.congr (flush_log s) (flush_tasks s) (flush_failed s)
  sem_eq := by show (flush s).sem + d + (flush s).inProgress = c; simpa using hs
  buf_idle := by
    intro hb
    exact (isIdle_congr (s' := { flush s with sem := (flush s).sem + d }) (s := flush s)
      rfl rfl rfl).trans (flush_buf_idle s hb)

/-! ### list helpers -/

theorem countP_spawn (ctx : Nat) (nw : List Nat) : (spawn ctx nw).countP isFetch = 0 := by
  rw [List.countP_eq_zero]
  intro w hw
  obtain ⟨h, _, rfl⟩ := mem_spawn.1 hw
  simp [isFetch]

theorem filter_spawn (ctx : Nat) (nw : List Nat) : (spawn ctx nw).filter isWait = spawn ctx nw := by
  rw [List.filter_eq_self]
  intro w hw
  obtain ⟨h, _, rfl⟩ := mem_spawn.1 hw
  simp [isWait]

theorem nodup_split {l1 l2 : List Worker} {w : Worker}
    (h : ((l1 ++ w :: l2).map (·.item)).Nodup) :
    ((l1 ++ l2).map (·.item)).Nodup ∧ ∀ w' ∈ l1 ++ l2, w'.item ≠ w.item := by
  simp only [List.map_append, List.map_cons, List.nodup_append, List.nodup_cons, List.mem_map,
    List.mem_cons, ne_eq, forall_exists_index, and_imp] at h
  obtain ⟨h1, ⟨h2, h3⟩, h4⟩ := h
  refine ⟨?_, ?_⟩
  · simp only [List.map_append, List.nodup_append, List.mem_map, ne_eq, forall_exists_index, and_imp]
    refine ⟨h1, h3, ?_⟩
    intro a x hx hxa b y hy hyb
    exact h4 a x hx hxa b (Or.inr ⟨y, hy, hyb⟩)
  · intro w' hw' e
    rcases List.mem_append.1 hw' with hw' | hw'
    · exact h4 _ w' hw' rfl _ (Or.inl rfl) e
    · exact h2 ⟨w', hw', e⟩

theorem filter_ne_items {l : List Worker} {h : Nat} (p : Worker → Bool) (hn : ∀ w' ∈ l, w'.item ≠ h) :
    ((l.filter p).map (·.item)).filter (· != h) = (l.filter p).map (·.item) := by
  rw [List.filter_eq_self]
  intro a ha
  obtain ⟨w', hw', rfl⟩ := List.mem_map.1 ha
  have := hn w' (List.mem_filter.1 hw').1
  simp [this]

/-- removing / promoting the waiting worker at a position removes exactly its item from the queue -/
theorem queue_drop {l1 l2 : List Worker} {w : Worker} (hw : isWait w = true)
    (hn : ∀ w' ∈ l1 ++ l2, w'.item ≠ w.item) :
    (((l1 ++ w :: l2).filter isWait).map (·.item)).filter (· != w.item)
      = ((l1 ++ l2).filter isWait).map (·.item) := by
  have h1 : ∀ w' ∈ l1, w'.item ≠ w.item := fun w' h => hn w' (List.mem_append.2 (Or.inl h))
  have h2 : ∀ w' ∈ l2, w'.item ≠ w.item := fun w' h => hn w' (List.mem_append.2 (Or.inr h))
  simp only [List.filter_append, List.filter_cons, hw, if_true, List.map_append, List.map_cons]
  rw [filter_ne_items isWait h1]
  simp only [bne_self_eq_false, Bool.false_eq_true, if_false]
  rw [filter_ne_items isWait h2]

end Orbit.Repl
