import OrbitModel.Proofs.LogJoin
import OrbitModel.Proofs.TravSort
/-!
# `Entry.lt` (LastWriteWins) is a strict order, total on a tie-free universe

Universe hypotheses `TieFree`, `ClockMono`; every entry of a log lies below some head.
-/
namespace Orbit

/-- no two distinct entries of the universe share (time, clock id) -/
def TieFree (U : List Entry) : Prop :=
  ∀ a ∈ U, ∀ b ∈ U, a.time = b.time → a.cid = b.cid → a = b

/-- an entry is strictly newer (in the log order) than everything it points to -/
def ClockMono (U : List Entry) : Prop :=
  ∀ p ∈ U, ∀ c ∈ U, c.hash ∈ p.next → Entry.lt c p = true

theorem Entry.lt_iff (a b : Entry) :
    Entry.lt a b = true ↔ a.time < b.time ∨ (a.time = b.time ∧ a.cid < b.cid) := by
  simp [Entry.lt]

theorem Entry.lt_irrefl (a : Entry) : Entry.lt a a = false := by
  rw [← Bool.not_eq_true, Entry.lt_iff]; omega

theorem Entry.lt_trans (a b c : Entry) (h1 : Entry.lt a b = true) (h2 : Entry.lt b c = true) :
    Entry.lt a c = true := by
  rw [Entry.lt_iff] at *; omega

theorem Entry.lt_time_le {a b : Entry} (h : Entry.lt a b = true) : a.time ≤ b.time := by
  rw [Entry.lt_iff] at h; omega

theorem Entry.lt_total {U : List Entry} (hT : TieFree U) (a : Entry) (ha : a ∈ U) (b : Entry)
    (hb : b ∈ U) (hne : a ≠ b) : Entry.lt a b = true ∨ Entry.lt b a = true := by
  rw [Entry.lt_iff, Entry.lt_iff]
  by_cases ht : a.time = b.time
  · by_cases hc : a.cid = b.cid
    · exact absurd (hT a ha b hb ht hc) hne
    · omega
  · omega

/-- `Entry.lt` is a strict order, total on every subset of a tie-free universe -/
theorem strictTotalOn_lt {U : List Entry} (hT : TieFree U) (S : List Entry) (hS : ∀ e ∈ S, e ∈ U) :
    Trav.StrictTotalOn Entry.lt S :=
  ⟨Entry.lt_irrefl, Entry.lt_trans,
    fun a ha b hb hne => Entry.lt_total hT a (hS a ha) b (hS b hb) hne⟩

/-- every entry is a head or lies strictly below a head -/
theorem below_head {U : List Entry} (hM : ClockMono U) {L : Log} (hI : Inv U L) :
    ∀ (n : Nat) (x : Entry), x ∈ L.entries → (L.entries.filter (fun y => Entry.lt x y)).length ≤ n →
      ∃ h ∈ L.heads, x = h ∨ Entry.lt x h = true := by
  intro n
  induction n with
  | zero =>
    intro x hx hlen
    by_cases hr : x.hash ∈ nexts L.entries
    · obtain ⟨p, hp, hn⟩ := (mem_nexts _ _).mp hr
      have hlt := hM p (hI.sub p hp) x (hI.sub x hx) hn
      have : 0 < (L.entries.filter (fun y => Entry.lt x y)).length :=
        List.length_pos_of_mem (List.mem_filter.mpr ⟨hp, hlt⟩)
      omega
    · exact ⟨x, (hI.heads x).mpr ⟨hx, hr⟩, Or.inl rfl⟩
  | succ n ih =>
    intro x hx hlen
    by_cases hr : x.hash ∈ nexts L.entries
    · obtain ⟨p, hp, hn⟩ := (mem_nexts _ _).mp hr
      have hlt := hM p (hI.sub p hp) x (hI.sub x hx) hn
      have hlen' : (L.entries.filter (fun y => Entry.lt p y)).length
          < (L.entries.filter (fun y => Entry.lt x y)).length :=
        filter_len_lt _ _ L.entries (fun y _ hy => Entry.lt_trans _ _ _ hlt hy) p hp hlt
          (Entry.lt_irrefl p)
      obtain ⟨h, hh, hph⟩ := ih p hp (by omega)
      refine ⟨h, hh, Or.inr ?_⟩
      rcases hph with rfl | hph
      · exact hlt
      · exact Entry.lt_trans _ _ _ hlt hph
    · exact ⟨x, (hI.heads x).mpr ⟨hx, hr⟩, Or.inl rfl⟩

theorem time_le_head {U : List Entry} (hM : ClockMono U) {L : Log} (hI : Inv U L) :
    ∀ x ∈ L.entries, ∃ h ∈ L.heads, x.time ≤ h.time := by
  intro x hx
  obtain ⟨h, hh, hxh⟩ := below_head hM hI _ x hx (Nat.le_refl _)
  refine ⟨h, hh, ?_⟩
  rcases hxh with rfl | hxh
  · exact Nat.le_refl _
  · exact Entry.lt_time_le hxh

end Orbit
