import OrbitModel.Proofs.Window
/-!
# Range queries over a log that also holds entries which are not operations

`queryWinOps` is the Go `query`/`read` as it is since the review of F48: the bound is looked up among
ALL the entries (it may be an entry that is not an operation), entries that are not operations are
skipped while collecting and do not count against `amount`.  `windowSpecOps` is what a user expects:
the operations on the asked side of the bound's position.
-/
namespace Orbit

/-- read `n` operations from position `s` of the reversed log, then reverse: the LAST `n` operations
of the first `length - s` entries -/
theorem reverse_read_filter (p : Entry → Bool) (l : List Entry) (s n : Nat) :
    (((l.reverse.drop s).filter p).take n).reverse =
      ((l.take (l.length - s)).filter p).drop (((l.take (l.length - s)).filter p).length - n) := by
  rw [List.drop_reverse, List.filter_reverse, List.take_reverse, List.reverse_reverse]

theorem queryWinOps_rev (p : Entry → Bool) (L : List Entry) (o : StreamOpts) (hgt : o.gt = none)
    (hgte : o.gte = none) :
    queryWinOps p L o = (readWinOps p L.reverse (match o.lt with | some c => some c | none => o.lte)
      (normAmount o.amount L.length) (o.lte.isSome || o.lt.isNone)).reverse := by
  unfold queryWinOps
  simp only [hgt, hgte, Option.isSome_none, Bool.or_false, Bool.false_eq_true, if_false]
  rfl

/-- **The Go `query` returns the specified window of operations**, whatever else the log holds and
whether or not the bound is an operation: for every `amount`, provided the log has distinct hashes, the
bounds are hashes of the log, and the options do not clash. -/
theorem queryWinOps_eq_windowSpecOps (p : Entry → Bool) (L : List Entry) (o : StreamOpts)
    (hnd : HashNodup L) (hb : boundOk L o) (hc : NoClash o) :
    queryWinOps p L o = windowSpecOps p L o := by
  obtain ⟨hc1, hc2⟩ := hc
  cases hgt : o.gt with
  | some h =>
    have hgte := hc1 (by rw [hgt]; rfl)
    unfold queryWinOps readWinOps windowSpecOps
    simp only [hgt, hgte, Option.isSome_some, Option.isSome_none, Bool.or_false, if_true,
      Bool.false_eq_true, if_false]
    cases L.findIdx? (fun e => e.hash == h) <;> rfl
  | none =>
    cases hgte : o.gte with
    | some h =>
      unfold queryWinOps readWinOps windowSpecOps
      simp only [hgt, hgte, Option.isSome_some, Option.isSome_none, Bool.false_or, if_true]
      cases L.findIdx? (fun e => e.hash == h) <;> rfl
    | none =>
      rw [queryWinOps_rev p L o hgt hgte]
      cases hlt : o.lt with
      | some h =>
        have hlte := hc2 hgt hgte (by rw [hlt]; rfl)
        obtain ⟨e, he, hh⟩ := hb h (Or.inr (Or.inr (Or.inl hlt)))
        obtain ⟨i, hi, hlt'⟩ := findIdx?_of_mem he hh
        unfold readWinOps windowSpecOps
        simp only [hgt, hgte, hlt, hlte, Option.isSome_none, Option.isNone_some, Bool.or_false,
          Bool.false_eq_true, if_false, hi, findIdx?_reverse_hash L h hnd i hi, Option.getD_some]
        rw [reverse_read_filter]
        have : L.length - (L.length - 1 - i + 1) = i := by omega
        rw [this]
      | none =>
        cases hlte : o.lte with
        | some h =>
          obtain ⟨e, he, hh⟩ := hb h (Or.inr (Or.inr (Or.inr hlte)))
          obtain ⟨i, hi, hlt'⟩ := findIdx?_of_mem he hh
          unfold readWinOps windowSpecOps
          simp only [hgt, hgte, hlt, hlte, Option.isSome_some, Bool.true_or, if_true, hi,
            findIdx?_reverse_hash L h hnd i hi, Option.getD_some]
          rw [reverse_read_filter]
          have : L.length - (L.length - 1 - i) = i + 1 := by omega
          rw [this]
        | none =>
          unfold readWinOps windowSpecOps
          simp only [hgt, hgte, hlt, hlte, Option.isSome_none, Option.isNone_none, Bool.or_true, if_true]
          have := reverse_read_filter p L 0 (normAmount o.amount L.length)
          rw [Nat.sub_zero, List.take_length] at this
          exact this

/-- nothing that is not an operation is ever listed, and what is listed is in the log -/
theorem queryWinOps_only_ops (p : Entry → Bool) (L : List Entry) (o : StreamOpts) :
    ∀ e ∈ queryWinOps p L o, p e = true ∧ e ∈ L := by
  intro e he
  have key : ∀ (l : List Entry) c n inc, e ∈ readWinOps p l c n inc → p e = true ∧ e ∈ l := by
    intro l c n inc h
    unfold readWinOps at h
    have h1 := List.mem_of_mem_take h
    rw [List.mem_filter] at h1
    exact ⟨h1.2, List.mem_of_mem_drop h1.1⟩
  unfold queryWinOps at he
  split at he
  · exact key _ _ _ _ he
  · rw [List.mem_reverse] at he
    obtain ⟨h1, h2⟩ := key _ _ _ _ he
    exact ⟨h1, List.mem_reverse.mp h2⟩

/-- the listing keeps the order of the log -/
theorem queryWinOps_sublist (p : Entry → Bool) (L : List Entry) (o : StreamOpts) :
    (queryWinOps p L o).Sublist (L.filter p) := by
  have key : ∀ (l : List Entry) c n inc, (readWinOps p l c n inc).Sublist (l.filter p) := by
    intro l c n inc
    unfold readWinOps
    exact (List.take_sublist _ _).trans ((List.drop_sublist _ _).filter p)
  unfold queryWinOps
  split
  · exact key _ _ _ _
  · have := (key L.reverse (match o.lt with | some c => some c | none => o.lte)
      (normAmount o.amount L.length) (o.lte.isSome || o.lt.isNone)).reverse
    rwa [List.filter_reverse, List.reverse_reverse] at this

/-- on a log of operations only, this is the plain window: nothing changed for the logs the store
itself writes -/
theorem queryWinOps_all_ops (p : Entry → Bool) (L : List Entry) (o : StreamOpts)
    (hall : ∀ e ∈ L, p e = true) : queryWinOps p L o = queryWin L o := by
  have key : ∀ (l : List Entry) c n inc, (∀ e ∈ l, p e = true) →
      readWinOps p l c n inc = readWin l c n inc := by
    intro l c n inc hl
    unfold readWinOps readWin
    dsimp only
    congr 1
    exact List.filter_eq_self.mpr (fun e he => hl e (List.mem_of_mem_drop he))
  unfold queryWinOps queryWin
  dsimp only
  split
  · exact key _ _ _ _ hall
  · rw [key _ _ _ _ (fun e he => hall e (List.mem_reverse.mp he))]

theorem windowSpecOps_all_ops (p : Entry → Bool) (L : List Entry) (o : StreamOpts)
    (hall : ∀ e ∈ L, p e = true) : windowSpecOps p L o = windowSpec L o := by
  have f : ∀ l : List Entry, l.Sublist L → l.filter p = l := by
    intro l hl
    rw [List.filter_eq_self]
    intro e he
    exact hall e (hl.subset he)
  have hidx : ∀ h, L ≠ [] → (L.findIdx? (fun e => e.hash == h)).getD 0 < L.length := by
    intro h hL
    cases hi : L.findIdx? (fun e => e.hash == h) with
    | none => exact List.length_pos_iff.mpr hL
    | some i => exact (List.findIdx?_eq_some_iff_getElem.mp hi).1
  by_cases hL : L = []
  · subst hL
    unfold windowSpecOps windowSpec
    dsimp only
    split <;> simp
  unfold windowSpecOps windowSpec
  dsimp only
  split
  · rw [f _ (List.drop_sublist _ _)]
  · rw [f _ (List.drop_sublist _ _)]
  · rename_i h _ _ _
    rw [f _ (List.take_sublist _ _), List.length_take]
    have := hidx h hL
    congr 1
    omega
  · rename_i h _ _ _ _
    rw [f _ (List.take_sublist _ _), List.length_take]
    have := hidx h hL
    congr 1
    omega
  · rw [f _ (List.Sublist.refl _)]

/-- the first entry the listing from `h` on (one entry long) answers with: what `Get(h)` looks at -/
theorem getOps_shape (p : Entry → Bool) (L : List Entry) (h : Nat) (hnd : HashNodup L) (e : Entry)
    (he : e ∈ L) (hh : e.hash = h) :
    ∃ rest, queryWinOps p L { gte := some h, amount := some 1 } = ((e :: rest).filter p).take 1 ∧
      ∀ x ∈ rest, x ∈ L ∧ x ≠ e := by
  obtain ⟨i, hi, hlt⟩ := findIdx?_of_mem he hh
  have hb : boundOk L { gte := some h, amount := some 1 } := by
    intro h' hh'
    rcases hh' with h1 | h1 | h1 | h1 <;> simp at h1
    exact ⟨e, he, by rw [hh, h1]⟩
  have hc : NoClash { gte := some h, amount := some (1 : Int) } := by unfold NoClash; simp
  rw [queryWinOps_eq_windowSpecOps p L _ hnd hb hc]
  have hn : normAmount (some 1) L.length = 1 := by simp [normAmount]
  obtain ⟨_, hp, _⟩ := List.findIdx?_eq_some_iff_getElem.mp hi
  have hLi : L[i] = e :=
    hashNodup_inj hnd (List.getElem_mem hlt) he (by rw [hh]; exact beq_iff_eq.mp hp)
  refine ⟨L.drop (i + 1), ?_, ?_⟩
  · unfold windowSpecOps
    simp only [hi, Option.getD_some, hn]
    rw [List.drop_eq_getElem_cons hlt, hLi]
  · intro x hx
    refine ⟨List.mem_of_mem_drop hx, ?_⟩
    intro hxe
    subst hxe
    -- `x` sits at index `i` and again behind it: two entries with one hash
    obtain ⟨j, hj, hxj⟩ := List.getElem_of_mem hx
    rw [List.length_drop] at hj
    rw [List.getElem_drop] at hxj
    have hnd' : (L.map (·.hash)).Pairwise (· ≠ ·) := hnd
    have := (List.pairwise_iff_getElem.mp hnd') i (i + 1 + j)
      (by rw [List.length_map]; exact hlt) (by rw [List.length_map]; omega) (by omega)
    simp only [List.getElem_map] at this
    rw [hLi, hxj] at this
    exact this rfl

/-- **`Get` of an operation returns that entry** -/
theorem getOps_of_operation (p : Entry → Bool) (L : List Entry) (h : Nat) (hnd : HashNodup L) (e : Entry)
    (he : e ∈ L) (hh : e.hash = h) (hop : p e = true) :
    queryWinOps p L { gte := some h, amount := some 1 } = [e] := by
  obtain ⟨rest, hq, _⟩ := getOps_shape p L h hnd e he hh
  rw [hq, List.filter_cons_of_pos hop]
  rfl

/-- **`Get` of an entry that is not an operation never answers with that entry**: what the listing hands
back (if anything) is ANOTHER entry of the log - which is what the Go `Get` now tests before it answers
(finding F69: it answered with it) -/
theorem getOps_of_non_operation (p : Entry → Bool) (L : List Entry) (h : Nat) (hnd : HashNodup L) (e : Entry)
    (he : e ∈ L) (hh : e.hash = h) (hop : p e = false) :
    ∀ x ∈ queryWinOps p L { gte := some h, amount := some 1 }, x ≠ e ∧ x.hash ≠ h := by
  obtain ⟨rest, hq, hrest⟩ := getOps_shape p L h hnd e he hh
  intro x hx
  rw [hq, List.filter_cons_of_neg (by simp [hop])] at hx
  have hxr : x ∈ rest := (List.mem_filter.mp (List.mem_of_mem_take hx)).1
  obtain ⟨hxL, hne⟩ := hrest x hxr
  refine ⟨hne, ?_⟩
  intro hxh
  exact hne (hashNodup_inj hnd hxL he (by rw [hxh, hh]))

/-- the review's witness: with the bound on an entry that is not an operation, the window is taken
from its POSITION - the version before looked the bound up among the operations only, did not find it
and started from the first entry -/
example :
    let e (n : Nat) : Entry := { (default : Entry) with hash := n }
    let isOp : Entry → Bool := fun x => x.hash != 3
    (queryWinOps isOp [e 1, e 2, e 3, e 4, e 5] { gte := some 3, amount := some (-1) }).map (·.hash) = [4, 5]
    ∧ (queryWin ([e 1, e 2, e 3, e 4, e 5].filter isOp) { gte := some 3, amount := some (-1) }).map (·.hash)
        = [1, 2, 4, 5] := by decide

end Orbit
