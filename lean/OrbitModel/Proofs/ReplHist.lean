import OrbitModel.Proofs.ReplLive
/-!
# Replicator: facts about arbitrary histories (`StIn`, the cancelled set)
-/
namespace Orbit.Repl

variable {net : Nat → Info} {c : Nat} {s : St} {U : List Nat}

/-- every head ever requested in the history is in `U` -/
def ActsIn (U : List Nat) (acts : List Act) : Prop :=
  ∀ a ∈ acts, ∀ ctx hs, a = Act.load ctx hs → ∀ h ∈ hs, h ∈ U

theorem StIn.step (hU : Closed net U) (hin : StIn U s) (a : Act)
    (ha : ∀ ctx hs, a = Act.load ctx hs → ∀ h ∈ hs, h ∈ U) : StIn U (step net s a) := by
  cases a with
  | load ctx hs => exact (load_facts (net := net) hin ctx (ha ctx hs rfl)).1
  | cancel ctx => exact ⟨hin.workers, hin.failed⟩
  | deliver =>
    cases hp : s.pending with
    | nil => simp only [Orbit.Repl.step, hp]; exact hin
    | cons b r => simp only [Orbit.Repl.step, hp]; exact ⟨hin.workers, hin.failed⟩
  | acquire i =>
    cases hwi : s.workers[i]? with
    | none => simp only [Orbit.Repl.step, hwi]; exact hin
    | some w =>
      obtain ⟨ctx, hh, pc⟩ := w
      cases pc with
      | fetching => simp only [Orbit.Repl.step, hwi]; exact hin
      | finishing => simp only [Orbit.Repl.step, hwi]; exact hin
      | waitSlot =>
        simp only [Orbit.Repl.step, hwi]
        obtain ⟨l1, l2, hw, _, hrm, hset⟩ := split_at hwi
        have hhU : hh ∈ U :=
          hin.workers ⟨ctx, hh, .waitSlot⟩ (hw ▸ List.mem_append.2 (Or.inr List.mem_cons_self))
        by_cases hc : s.cancelled.contains ctx = true
        · rw [if_pos hc]
          show StIn U (flush (acqCancel s i hh))
          refine ⟨?_, ?_⟩
          · rw [flush_workers]
            intro w' hw'
            exact hin.workers w' (mem_removeAt hw hrm hw')
          · rw [flush_failed]
            intro k hk
            rcases List.mem_cons.1 hk with rfl | hk
            · exact hhU
            · exact hin.failed k hk
        · rw [if_neg hc]
          by_cases h0 : s.sem = 0
          · rw [if_pos h0]; exact hin
          · rw [if_neg h0]
            show StIn U (acqOk s i ctx hh)
            refine ⟨?_, hin.failed⟩
            intro w' hw'
            have hw'' : w' ∈ s.workers.set i ⟨ctx, hh, .fetching⟩ := hw'
            rw [hset] at hw''
            rcases List.mem_append.1 hw'' with h' | h'
            · exact hin.workers w' (hw ▸ List.mem_append.2 (Or.inl h'))
            · rcases List.mem_cons.1 h' with rfl | h'
              · exact hhU
              · exact hin.workers w' (hw ▸ List.mem_append.2 (Or.inr (List.mem_cons_of_mem _ h')))
  | fetchFail i =>
    cases hwi : s.workers[i]? with
    | none => simp only [Orbit.Repl.step, hwi]; exact hin
    | some w =>
      obtain ⟨ctx, hh, pc⟩ := w
      cases pc with
      | waitSlot => simp only [Orbit.Repl.step, hwi]; exact hin
      | finishing => simp only [Orbit.Repl.step, hwi]; exact hin
      | fetching =>
        simp only [Orbit.Repl.step, hwi]
        obtain ⟨l1, l2, hw, _, hrm, _⟩ := split_at hwi
        have hhU : hh ∈ U :=
          hin.workers ⟨ctx, hh, .fetching⟩ (hw ▸ List.mem_append.2 (Or.inr List.mem_cons_self))
        refine ⟨?_, ?_⟩
        · rw [failedDone_workers]
          intro w' hw'
          exact hin.workers w' (mem_removeAt hw hrm hw')
        · rw [failedDone_failed]
          intro k hk
          rcases List.mem_cons.1 hk with rfl | hk
          · exact hhU
          · exact hin.failed k hk
  | fetched i =>
    cases hwi : s.workers[i]? with
    | none => simp only [Orbit.Repl.step, hwi]; exact hin
    | some w =>
      obtain ⟨ctx, hh, pc⟩ := w
      cases pc with
      | waitSlot => simp only [Orbit.Repl.step, hwi]; exact hin
      | finishing => simp only [Orbit.Repl.step, hwi]; exact hin
      | fetching =>
        simp only [Orbit.Repl.step, hwi]
        by_cases hc : s.cancelled.contains ctx = true
        · rw [if_pos hc]; exact hin
        rw [if_neg hc]
        obtain ⟨l1, l2, hw, _, _, hset⟩ := split_at hwi
        have hhU : hh ∈ U :=
          hin.workers ⟨ctx, hh, .fetching⟩ (hw ▸ List.mem_append.2 (Or.inr List.mem_cons_self))
        have hset' : ∀ w' ∈ s.workers.set i ⟨ctx, hh, .finishing⟩, w'.item ∈ U := by
          intro w' hw'
          rw [hset] at hw'
          rcases List.mem_append.1 hw' with h' | h'
          · exact hin.workers w' (hw ▸ List.mem_append.2 (Or.inl h'))
          · rcases List.mem_cons.1 h' with rfl | h'
            · exact hhU
            · exact hin.workers w' (hw ▸ List.mem_append.2 (Or.inr (List.mem_cons_of_mem _ h')))
        cases hf : (net hh).foreign with
        | true =>
          simp only [if_true]
          exact ⟨hset', hin.failed⟩
        | false =>
          simp only [Bool.false_eq_true, if_false]
          show StIn U (List.foldl (enqueue ctx) (okPre s i ctx hh) (net hh).links)
          obtain ⟨nw, hnd, hnew, hcov, heq⟩ := foldl_enqueue_spec ctx (net hh).links (okPre s i ctx hh)
          rw [heq]
          refine ⟨?_, hin.failed⟩
          rw [enqd_workers]
          intro w' hw'
          rcases List.mem_append.1 hw' with hw' | hw'
          · exact hset' w' hw'
          · obtain ⟨k, hk, rfl⟩ := mem_spawn.1 hw'
            exact hU hh hhU hf k (hnew k hk).1
  | finish i =>
    cases hwi : s.workers[i]? with
    | none => simp only [Orbit.Repl.step, hwi]; exact hin
    | some w =>
      obtain ⟨ctx, hh, pc⟩ := w
      cases pc with
      | waitSlot => simp only [Orbit.Repl.step, hwi]; exact hin
      | fetching => simp only [Orbit.Repl.step, hwi]; exact hin
      | finishing =>
        simp only [Orbit.Repl.step, hwi]
        obtain ⟨l1, l2, hw, _, hrm, _⟩ := split_at hwi
        refine ⟨?_, by rw [done_failed]; exact hin.failed⟩
        rw [done_workers]
        intro w' hw'
        exact hin.workers w' (mem_removeAt hw hrm hw')

theorem StIn.run (hU : Closed net U) (hin : StIn U s) {acts : List Act} (ha : ActsIn U acts) :
    StIn U (run net s acts) := by
  induction acts generalizing s with
  | nil => exact hin
  | cons a acts ih =>
    exact ih (hin.step hU a (ha a List.mem_cons_self))
      (fun b hb => ha b (List.mem_cons_of_mem _ hb))

theorem stIn_reachable (hU : Closed net U) {acts : List Act} (ha : ActsIn U acts) :
    StIn U (run net { sem := c } acts) :=
  StIn.run hU ⟨fun w hw => (by cases hw), fun h hh => (by cases hh)⟩ ha

/-- only `cancel` changes the cancelled set -/
theorem step_cancelled (a : Act) (ha : ∀ ctx, a ≠ Act.cancel ctx) :
    (step net s a).cancelled = s.cancelled := by
  cases a with
  | load ctx hs =>
    obtain ⟨nw, _, _, _, heq⟩ := foldl_enqueue_spec ctx (s.failed ++ hs) { s with failed := [] }
    show (List.foldl (enqueue ctx) { s with failed := [] } (s.failed ++ hs)).cancelled = _
    rw [heq]; rfl
  | cancel ctx => exact absurd rfl (ha ctx)
  | deliver =>
    cases hp : s.pending <;> simp only [Orbit.Repl.step, hp]
  | acquire i =>
    cases hwi : s.workers[i]? with
    | none => simp only [Orbit.Repl.step, hwi]
    | some w =>
      obtain ⟨ctx, hh, pc⟩ := w
      cases pc with
      | fetching => simp only [Orbit.Repl.step, hwi]
      | finishing => simp only [Orbit.Repl.step, hwi]
      | waitSlot =>
        simp only [Orbit.Repl.step, hwi]
        split
        · rw [flush_cancelled]; rfl
        · split <;> rfl
  | fetchFail i =>
    cases hwi : s.workers[i]? with
    | none => simp only [Orbit.Repl.step, hwi]
    | some w =>
      obtain ⟨ctx, hh, pc⟩ := w
      cases pc <;> simp only [Orbit.Repl.step, hwi, failedDone_cancelled]
  | fetched i =>
    cases hwi : s.workers[i]? with
    | none => simp only [Orbit.Repl.step, hwi]
    | some w =>
      obtain ⟨ctx, hh, pc⟩ := w
      cases pc with
      | waitSlot => simp only [Orbit.Repl.step, hwi]
      | finishing => simp only [Orbit.Repl.step, hwi]
      | fetching =>
        simp only [Orbit.Repl.step, hwi]
        split
        · rfl
        · split
          · rfl
          · obtain ⟨nw, _, _, _, heq⟩ := foldl_enqueue_spec ctx (net hh).links (okPre s i ctx hh)
            show (List.foldl (enqueue ctx) (okPre s i ctx hh) (net hh).links).cancelled = _
            rw [heq]; rfl
  | finish i =>
    cases hwi : s.workers[i]? with
    | none => simp only [Orbit.Repl.step, hwi]
    | some w =>
      obtain ⟨ctx, hh, pc⟩ := w
      cases pc <;> simp only [Orbit.Repl.step, hwi, done_cancelled]

/-- a history without cancellation leaves no worker of a cancelled request -/
theorem clean_of_no_cancel {acts : List Act} (ha : ∀ ctx, Act.cancel ctx ∉ acts) :
    (run net { sem := c } acts).cancelled = [] ∧ Clean (run net { sem := c } acts) := by
  have h : ∀ (s : St), s.cancelled = [] → (run net s acts).cancelled = [] := by
    induction acts with
    | nil => intro s hs; exact hs
    | cons a acts ih =>
      intro s hs
      apply ih (fun ctx hm => ha ctx (List.mem_cons_of_mem _ hm))
      rw [step_cancelled a (fun ctx e => ha ctx (e ▸ List.mem_cons_self))]
      exact hs
  have h0 := h { sem := c } rfl
  refine ⟨h0, ?_⟩
  intro w _
  rw [h0]; rfl

/-! ### decidable forms of the side conditions on histories -/

def Act.headsIn (U : List Nat) : Act → Bool
  | .load _ hs => hs.all (fun h => U.contains h)
  | _ => true

def Act.isCancel : Act → Bool
  | .cancel _ => true
  | _ => false

theorem actsIn_of_all {acts : List Act} (h : acts.all (Act.headsIn U) = true) : ActsIn U acts := by
  intro a ha ctx hs e k hk
  have := List.all_eq_true.1 h a ha
  subst e
  simp only [Act.headsIn, List.all_eq_true] at this
  simpa using this k hk

theorem noCancel_of_all {acts : List Act} (h : acts.all (fun a => !a.isCancel) = true) :
    ∀ ctx, Act.cancel ctx ∉ acts := by
  intro ctx hm
  have := List.all_eq_true.1 h _ hm
  simp [Act.isCancel] at this

end Orbit.Repl
