import OrbitModel.Generated.GenWalk
/-!
# Regenerated Go fragment = hand-written model (tie 2): the replicator looks at EVERY hash a fetched
entry names (`Model/Replicator.lean`, `fetched`: `(net h).links.foldl (enqueue ctx)`)
-/
namespace Orbit

theorem gen_parentWalk_complete : Gen.parentWalkExits = 0 := by decide

end Orbit
