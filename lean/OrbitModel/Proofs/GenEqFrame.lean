import OrbitModel.Generated.GenFrame
import OrbitModel.Model.Codec
/-!
# Regenerated Go fragment = hand-written model (tie 2); one small module per fragment, so that a
change to one Go function only stops the theorems tied to it
-/
namespace Orbit

theorem gen_maxFrame : Gen.delimitedReadMaxSize = 4 * 1024 * 1024 := by decide

/-- the size check regenerated from `directchannel.handleNewPeer` is the model's guard -/
theorem gen_frameRefused (len64 : BitVec 64) :
    Gen.genFrameRefused len64 = (Codec.frameGuard len64 == .refused) := by
  have hmax : Gen.delimitedReadMaxSize = Codec.maxFrame := by decide
  unfold Gen.genFrameRefused Codec.frameGuard
  rw [hmax]
  by_cases h : (len64.toNat : Int) > Codec.maxFrame
  · rw [if_pos h]; simp [h]
  · rw [if_neg h]; simp [h]

end Orbit
