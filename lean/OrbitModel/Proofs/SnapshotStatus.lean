import OrbitModel.Model.Snapshot
import OrbitModel.Proofs.ClockBound
/-!
# Replication status after `LoadFromSnapshot`   (C19, finding F23)
-/
namespace Orbit.Snap
open Orbit

theorem maxClockOf_foldl_ge (es : List Entry) (m : Int) :
    m ≤ es.foldl (fun m e => if m < (e.time : Int) then (e.time : Int) else m) m := by
  induction es generalizing m with
  | nil => simp
  | cons a t ih =>
    simp only [List.foldl_cons]
    split
    · have := ih (a.time : Int); omega
    · exact ih m

theorem maxClockOf_foldl_le (es : List Entry) (m n : Int) (hm : m ≤ n) (h : ∀ e ∈ es, (e.time : Int) ≤ n) :
    es.foldl (fun m e => if m < (e.time : Int) then (e.time : Int) else m) m ≤ n := by
  induction es generalizing m with
  | nil => simpa
  | cons a t ih =>
    simp only [List.foldl_cons]
    split
    · exact ih _ (h a (by simp)) (fun e he => h e (by simp [he]))
    · exact ih _ hm (fun e he => h e (by simp [he]))

theorem maxClockOf_nonneg (es : List Entry) : 0 ≤ maxClockOf es := maxClockOf_foldl_ge es 0

theorem maxClockOf_le (es : List Entry) (n : Int) (hn : 0 ≤ n) (h : ∀ e ∈ es, (e.time : Int) ≤ n) :
    maxClockOf es ≤ n := maxClockOf_foldl_le es 0 n hn h

theorem maxClockOf_ge (es : List Entry) : ∀ e ∈ es, (e.time : Int) ≤ maxClockOf es := by
  unfold maxClockOf
  suffices h : ∀ (m : Int), ∀ e ∈ es, (e.time : Int) ≤ es.foldl (fun m e => if m < (e.time : Int) then (e.time : Int) else m) m from h 0
  induction es with
  | nil => intro m e he; cases he
  | cons a t ih =>
    intro m e he
    simp only [List.foldl_cons]
    rcases List.mem_cons.1 he with rfl | he'
    · split
      · exact maxClockOf_foldl_ge t _
      · have := maxClockOf_foldl_ge t m; omega
    · exact ih _ e he'

/-- the arithmetic: whenever the clock argument does not exceed the number of entries merged, the
fresh store stands at `len / len` -/
theorem statusAfterLoad_of_le (counted : List Entry) (L : Log)
    (h : maxClockOf counted ≤ (L.entries.length : Int)) :
    statusAfterLoad counted L = { progress := L.entries.length, max := L.entries.length } := by
  have h0 := maxClockOf_nonneg counted
  have hn : (0 : Int) ≤ (L.entries.length : Int) := by omega
  unfold statusAfterLoad
  generalize maxClockOf counted = mc at *
  generalize (L.entries.length : Int) = n at *
  have hmax : (recalcStatus n (recalcMax 0 {} mc) mc).max = n := by
    simp only [recalcStatus, recalcProgress, recalcMax]
    repeat' split
    all_goals omega
  have hprog : (recalcStatus n (recalcMax 0 {} mc) mc).progress = n := by
    simp only [recalcStatus, recalcProgress, recalcMax]
    repeat' split
    all_goals omega
  cases hs : recalcStatus n (recalcMax 0 {} mc) mc with
  | mk p m => rw [hs] at hmax hprog; simp at hmax hprog; simp [hmax, hprog]

/-- **after the repair**: the clock is taken over the entries merged. For a complete log of honestly
clocked entries the fresh store is at rest with progress = maximum = number of entries, whatever else
the snapshot file held. -/
theorem load_status_at_rest {U : List Entry} (hU : HashDet U) (hT : ClockTight U) {L : Log}
    (hs : ∀ e ∈ L.entries, e ∈ U) (hc : Closed L) :
    statusAfterLoad L.entries L = { progress := L.entries.length, max := L.entries.length } := by
  apply statusAfterLoad_of_le
  apply maxClockOf_le _ _ (by omega)
  intro e he
  have := time_le_length hU hT hs hc e he
  omega

/-- and that value is at least the largest Lamport time among the entries -/
theorem load_status_ge_clock {U : List Entry} (hU : HashDet U) (hT : ClockTight U) {L : Log}
    (hs : ∀ e ∈ L.entries, e ∈ U) (hc : Closed L) :
    ∀ e ∈ L.entries, (e.time : Int) ≤ (statusAfterLoad L.entries L).max := by
  intro e he
  rw [load_status_at_rest hU hT hs hc]
  have := time_le_length hU hT hs hc e he
  show (e.time : Int) ≤ (L.entries.length : Int)
  omega

/-- a chain `e1 ← e2 ← e3 ← e4` -/
def chainEntry (n : Nat) : Entry :=
  { hash := n, time := n, next := if n ≤ 1 then [] else [n - 1], logId := 1, cid := 0 }

/-- **refutation witness for the tree before the repair** (finding F23): a snapshot written while
the log grew from 3 to 4 entries holds the heads of the 3-entry log and 4 records; the loader counted
the clock of the fourth record, and the fresh store stood at rest at 3/4 with a complete log of 3
entries. Replayed on the real store: corpus/C19/f23. -/
theorem counting_every_record_left_the_store_short :
    let L : Log := { (Log.empty 1) with entries := [chainEntry 1, chainEntry 2, chainEntry 3] }
    statusAfterLoad [chainEntry 1, chainEntry 2, chainEntry 3, chainEntry 4] L = { progress := 3, max := 4 } ∧
    statusAfterLoad L.entries L = { progress := 3, max := 3 } := by
  decide

end Orbit.Snap
