import OrbitModel.Proofs.ReplEnq
/-!
# Replicator: `fetched` then `finish` is the old atomic `fetchOk`

The model used to complete a fetch in one step (`fetchOkAtomic` below is that step's definition,
verbatim). In the Go text it is two critical sections (`processItems`, then `processEntryDone`) and
other workers — the ones just spawned included — can move in between; the model now has the two
actions `fetched` and `finish`. When nothing moves in between, the two steps produce exactly the
state the one step produced: same oplog, tasks, queue, `failed`, semaphore, in-progress counter,
pending batches, buffer, cancelled set, and the same workers in the same order.
-/
namespace Orbit.Repl

/-- the former one-step reading of a successful fetch (the body of the old `Act.fetchOk i`) -/
def fetchOkAtomic (net : Nat → Info) (s : St) (i : Nat) : St :=
  match s.workers[i]? with
  | some ⟨ctx, h, .fetching⟩ =>
    if s.cancelled.contains ctx then s else
    let s := { s with workers := removeAt s.workers i }
    if (net h).foreign then done s h                     -- ignored: not buffered, links not followed
    else
      let s := { s with buffer := s.buffer ++ [h] }
      let s := (net h).links.foldl (enqueue ctx) s
      done s h
  | _ => s

/-- which hashes `foldl (enqueue ctx)` queues does not depend on the worker list -/
theorem foldl_enqueue_workers (ctx : Nat) (l : List Nat) (s : St) (ws : List Worker) :
    ∃ nw : List Nat, l.foldl (enqueue ctx) s = enqd s ctx nw ∧
      l.foldl (enqueue ctx) { s with workers := ws } = enqd { s with workers := ws } ctx nw := by
  induction l generalizing s ws with
  | nil => exact ⟨[], (enqd_nil s ctx).symm, (enqd_nil _ ctx).symm⟩
  | cons h l ih =>
    rw [List.foldl_cons, List.foldl_cons]
    by_cases hc : h ∈ s.log ∨ task s h ≠ none
    · rw [enqueue_stale hc, enqueue_stale (s := { s with workers := ws }) hc]
      exact ih s ws
    · have hl : h ∉ s.log := fun e => hc (Or.inl e)
      have ht : task s h = none := by
        cases e : task s h with
        | none => rfl
        | some t => exact absurd (Or.inr (by simp [e])) hc
      rw [enqueue_fresh hl ht, enqueue_fresh (s := { s with workers := ws }) hl ht]
      obtain ⟨nw, h1, h2⟩ := ih (enqd s ctx [h]) (ws ++ spawn ctx [h])
      refine ⟨h :: nw, ?_, ?_⟩
      · rw [h1, enqd_enqd]; rfl
      · have e : enqd { s with workers := ws } ctx [h]
            = { enqd s ctx [h] with workers := ws ++ spawn ctx [h] } := rfl
        rw [e, h2, ← e, enqd_enqd]; rfl

theorem getElem?_mid {α : Type} (l1 l2 : List α) (a : α) : (l1 ++ a :: l2)[l1.length]? = some a := by
  simp

theorem removeAt_mid {α : Type} (l1 l2 : List α) (a : α) : removeAt (l1 ++ a :: l2) l1.length = l1 ++ l2 := by
  simp [removeAt]

/-- **the two-step model coincides with the one-step reading when nothing intervenes**: for a
worker inside a fetch whose context is live, `fetched i` followed at once by `finish i` yields the
state of the old atomic `fetchOk i` — every field, the worker list in the same order. -/
theorem fetched_finish_eq_atomic (net : Nat → Info) (s : St) (i ctx h : Nat)
    (hw : s.workers[i]? = some ⟨ctx, h, .fetching⟩) (hc : s.cancelled.contains ctx = false) :
    step net (step net s (.fetched i)) (.finish i) = fetchOkAtomic net s i := by
  obtain ⟨l1, l2, hws, hlen, hrm, hset⟩ := split_at hw
  subst hlen
  simp only [fetchOkAtomic, step, hw, hc, Bool.false_eq_true, if_false, hset, hrm]
  cases hf : (net h).foreign with
  | true =>
    simp only [if_true, getElem?_mid, removeAt_mid]
  | false =>
    simp only [Bool.false_eq_true, if_false]
    obtain ⟨nw, h1, h2⟩ := foldl_enqueue_workers ctx (net h).links
      { s with workers := l1 ++ l2, buffer := s.buffer ++ [h] } (l1 ++ ⟨ctx, h, .finishing⟩ :: l2)
    rw [h1]
    have h2' : List.foldl (enqueue ctx)
        { s with workers := l1 ++ ⟨ctx, h, .finishing⟩ :: l2, buffer := s.buffer ++ [h] } (net h).links
        = enqd { s with workers := l1 ++ ⟨ctx, h, .finishing⟩ :: l2, buffer := s.buffer ++ [h] } ctx nw := h2
    rw [h2']
    have hwk : (enqd { s with workers := l1 ++ ⟨ctx, h, .finishing⟩ :: l2, buffer := s.buffer ++ [h] }
        ctx nw).workers = l1 ++ ⟨ctx, h, .finishing⟩ :: (l2 ++ spawn ctx nw) := by
      rw [enqd_workers]; simp
    simp only [hwk, getElem?_mid, removeAt_mid]
    have e : ∀ ws, ({ enqd { s with workers := l1 ++ ⟨ctx, h, .finishing⟩ :: l2, buffer := s.buffer ++ [h] }
        ctx nw with workers := ws } : St)
        = { enqd { s with workers := l1 ++ l2, buffer := s.buffer ++ [h] } ctx nw with workers := ws } :=
      fun _ => rfl
    rw [e]
    congr 1
    show _ = enqd { s with workers := l1 ++ l2, buffer := s.buffer ++ [h] } ctx nw
    simp only [enqd, List.append_assoc]

/-- the same, field by field (the form asked for by readers who do not want to trust `=` on
structures): the observable components of the two-step run and of the atomic step agree -/
theorem fetched_finish_fields (net : Nat → Info) (s : St) (i ctx h : Nat)
    (hw : s.workers[i]? = some ⟨ctx, h, .fetching⟩) (hc : s.cancelled.contains ctx = false) :
    let s2 := step net (step net s (.fetched i)) (.finish i)
    let s1 := fetchOkAtomic net s i
    s2.log = s1.log ∧ s2.tasks = s1.tasks ∧ s2.queue = s1.queue ∧ s2.failed = s1.failed ∧
    s2.sem = s1.sem ∧ s2.inProgress = s1.inProgress ∧ s2.pending = s1.pending ∧
    s2.buffer = s1.buffer ∧ s2.workers = s1.workers ∧ s2.cancelled = s1.cancelled := by
  intro s2 s1
  have e : s2 = s1 := fetched_finish_eq_atomic net s i ctx h hw hc
  rw [e]
  exact ⟨rfl, rfl, rfl, rfl, rfl, rfl, rfl, rfl, rfl, rfl⟩

/-- a cancelled context blocks `fetched` (as it blocked `fetchOk`), and `finish` does nothing to a
worker that is still inside its fetch: the pair is again the old step -/
theorem fetched_finish_eq_atomic_cancelled (net : Nat → Info) (s : St) (i ctx h : Nat)
    (hw : s.workers[i]? = some ⟨ctx, h, .fetching⟩) (hc : s.cancelled.contains ctx = true) :
    step net (step net s (.fetched i)) (.finish i) = fetchOkAtomic net s i := by
  simp only [fetchOkAtomic, step, hw, hc, if_true]

end Orbit.Repl
