import OrbitModel.Proofs.ReplBasic
/-!
# Replicator: an explicit description of `foldl (enqueue ctx)`

Queuing a list of hashes adds exactly the fresh ones (`nw`: not in the oplog, no task, first
occurrence), each with a task `added`, a queue item and one waiting worker bound to it.
-/
namespace Orbit.Repl

def spawn (ctx : Nat) (nw : List Nat) : List Worker := nw.map (fun h => ⟨ctx, h, .waitSlot⟩)

/-- the state after queuing the fresh hashes `nw` (in this order) for context `ctx` -/
def enqd (s : St) (ctx : Nat) (nw : List Nat) : St :=
  { s with tasks := nw.reverse.map (fun k => (k, TS.added)) ++ s.tasks,
           queue := s.queue ++ nw, workers := s.workers ++ spawn ctx nw }

@[simp] theorem enqd_log (s : St) (ctx : Nat) (nw : List Nat) : (enqd s ctx nw).log = s.log := rfl
@[simp] theorem enqd_failed (s : St) (ctx : Nat) (nw : List Nat) : (enqd s ctx nw).failed = s.failed := rfl
@[simp] theorem enqd_buffer (s : St) (ctx : Nat) (nw : List Nat) : (enqd s ctx nw).buffer = s.buffer := rfl
@[simp] theorem enqd_pending (s : St) (ctx : Nat) (nw : List Nat) : (enqd s ctx nw).pending = s.pending := rfl
@[simp] theorem enqd_sem (s : St) (ctx : Nat) (nw : List Nat) : (enqd s ctx nw).sem = s.sem := rfl
@[simp] theorem enqd_inProgress (s : St) (ctx : Nat) (nw : List Nat) :
    (enqd s ctx nw).inProgress = s.inProgress := rfl
@[simp] theorem enqd_cancelled (s : St) (ctx : Nat) (nw : List Nat) :
    (enqd s ctx nw).cancelled = s.cancelled := rfl
@[simp] theorem enqd_workers (s : St) (ctx : Nat) (nw : List Nat) :
    (enqd s ctx nw).workers = s.workers ++ spawn ctx nw := rfl
@[simp] theorem enqd_queue (s : St) (ctx : Nat) (nw : List Nat) : (enqd s ctx nw).queue = s.queue ++ nw := rfl

theorem task_enqd (s : St) (ctx : Nat) (nw : List Nat) (k : Nat) :
    task (enqd s ctx nw) k = if k ∈ nw then some .added else task s k := by
  simp only [task_def, enqd, lookup_added_append, List.mem_reverse]

theorem inBP_enqd (s : St) (ctx : Nat) (nw : List Nat) (k : Nat) : inBP (enqd s ctx nw) k ↔ inBP s k :=
  inBP_congr rfl rfl k

theorem enqd_nil (s : St) (ctx : Nat) : enqd s ctx [] = s := by
  cases s; simp [enqd, spawn]

theorem mem_spawn {ctx : Nat} {nw : List Nat} {w : Worker} :
    w ∈ spawn ctx nw ↔ ∃ h ∈ nw, w = ⟨ctx, h, .waitSlot⟩ := by
  simp only [spawn, List.mem_map]
  constructor
  · rintro ⟨h, hh, rfl⟩; exact ⟨h, hh, rfl⟩
  · rintro ⟨h, hh, rfl⟩; exact ⟨h, hh, rfl⟩

theorem spawn_items (ctx : Nat) (nw : List Nat) : (spawn ctx nw).map (·.item) = nw := by
  induction nw with
  | nil => rfl
  | cons a l ih => simp only [spawn, List.map_cons] at ih ⊢; rw [ih]

theorem enqueue_fresh {ctx : Nat} {s : St} {h : Nat} (hl : h ∉ s.log) (ht : task s h = none) :
    enqueue ctx s h = enqd s ctx [h] := by
  have hc : (s.log.contains h || (task s h).isSome) = false := by
    simp [ht, hl]
  unfold enqueue
  simp only [hc, Bool.false_eq_true, if_false, enqd, setTask, spawn, List.reverse_cons, List.reverse_nil,
    List.nil_append, List.map_cons, List.map_nil, List.cons_append]
  rw [filter_of_lookup_none ht]

theorem enqueue_stale {ctx : Nat} {s : St} {h : Nat} (hc : h ∈ s.log ∨ task s h ≠ none) :
    enqueue ctx s h = s := by
  have : (s.log.contains h || (task s h).isSome) = true := by
    rcases hc with hc | hc
    · simp [hc]
    · cases ht : task s h with
      | none => exact absurd ht hc
      | some t => simp
  unfold enqueue
  simp only [this, if_true]

theorem enqd_enqd (s : St) (ctx : Nat) (a b : List Nat) : enqd (enqd s ctx a) ctx b = enqd s ctx (a ++ b) := by
  simp only [enqd, spawn, List.reverse_append, List.map_append, List.append_assoc]

/-- **explicit form of `Load`/link queuing** -/
theorem foldl_enqueue_spec (ctx : Nat) (l : List Nat) (s : St) :
    ∃ nw : List Nat, nw.Nodup ∧ (∀ k ∈ nw, k ∈ l ∧ task s k = none ∧ k ∉ s.log) ∧
      (∀ k ∈ l, k ∈ s.log ∨ task s k ≠ none ∨ k ∈ nw) ∧
      l.foldl (enqueue ctx) s = enqd s ctx nw := by
  induction l generalizing s with
  | nil => exact ⟨[], List.nodup_nil, by simp, by simp, (enqd_nil s ctx).symm⟩
  | cons h l ih =>
    rw [List.foldl_cons]
    by_cases hc : h ∈ s.log ∨ task s h ≠ none
    · rw [enqueue_stale hc]
      obtain ⟨nw, hnd, hnew, hcov, heq⟩ := ih s
      refine ⟨nw, hnd, fun k hk => ⟨List.mem_cons_of_mem _ (hnew k hk).1, (hnew k hk).2⟩, ?_, heq⟩
      intro k hk
      rcases List.mem_cons.1 hk with rfl | hk
      · rcases hc with hc | hc
        · exact Or.inl hc
        · exact Or.inr (Or.inl hc)
      · exact hcov k hk
    · have hl : h ∉ s.log := fun e => hc (Or.inl e)
      have ht : task s h = none := by
        cases e : task s h with
        | none => rfl
        | some t => exact absurd (Or.inr (by simp [e])) hc
      rw [enqueue_fresh hl ht]
      obtain ⟨nw, hnd, hnew, hcov, heq⟩ := ih (enqd s ctx [h])
      have hnew' : ∀ k ∈ nw, k ≠ h ∧ task s k = none := by
        intro k hk
        have := (hnew k hk).2.1
        rw [task_enqd] at this
        by_cases hkh : k = h
        · simp [hkh] at this
        · simpa [hkh] using this
      refine ⟨h :: nw, ?_, ?_, ?_, ?_⟩
      · exact List.nodup_cons.2 ⟨fun e => (hnew' h e).1 rfl, hnd⟩
      · intro k hk
        rcases List.mem_cons.1 hk with rfl | hk
        · exact ⟨List.mem_cons_self, ht, hl⟩
        · exact ⟨List.mem_cons_of_mem _ (hnew k hk).1, (hnew' k hk).2, (hnew k hk).2.2⟩
      · intro k hk
        rcases List.mem_cons.1 hk with rfl | hk
        · exact Or.inr (Or.inr List.mem_cons_self)
        · rcases hcov k hk with h1 | h1 | h1
          · exact Or.inl h1
          · rw [task_enqd] at h1
            by_cases hkh : k = h
            · exact Or.inr (Or.inr (hkh ▸ List.mem_cons_self))
            · simp only [List.mem_singleton, hkh, if_false] at h1
              exact Or.inr (Or.inl h1)
          · exact Or.inr (Or.inr (List.mem_cons_of_mem _ h1))
      · rw [heq, enqd_enqd]; rfl

/-! ### key sets of the task table -/

theorem keys_nodup_filter {ts : List (Nat × TS)} (h : Nat) (hn : (ts.map (·.1)).Nodup) :
    ((ts.filter (·.1 != h)).map (·.1)).Nodup :=
  List.Nodup.sublist (List.Sublist.map _ List.filter_sublist) hn

theorem keys_nodup_set {ts : List (Nat × TS)} (h : Nat) (t : TS) (hn : (ts.map (·.1)).Nodup) :
    (((h, t) :: ts.filter (·.1 != h)).map (·.1)).Nodup := by
  rw [List.map_cons, List.nodup_cons]
  refine ⟨?_, keys_nodup_filter h hn⟩
  intro hm
  obtain ⟨p, hp, he⟩ := List.mem_map.1 hm
  have := (List.mem_filter.1 hp).2
  simp at this
  exact this he

theorem keys_nodup_enqd {s : St} (ctx : Nat) {nw : List Nat} (hn : (s.tasks.map (·.1)).Nodup)
    (hnd : nw.Nodup) (hnew : ∀ k ∈ nw, task s k = none) : ((enqd s ctx nw).tasks.map (·.1)).Nodup := by
  induction nw generalizing s with
  | nil => rw [enqd_nil]; exact hn
  | cons a nw ih =>
    have : enqd s ctx (a :: nw) = enqd (enqd s ctx [a]) ctx nw := by rw [enqd_enqd]; rfl
    rw [this]
    rw [List.nodup_cons] at hnd
    apply ih _ hnd.2
    · intro k hk
      rw [task_enqd]
      have : k ≠ a := fun e => hnd.1 (e ▸ hk)
      simp only [List.mem_singleton, this, if_false]
      exact hnew k (List.mem_cons_of_mem _ hk)
    · have ha := hnew a List.mem_cons_self
      show (((a, TS.added) :: s.tasks).map (·.1)).Nodup
      rw [List.map_cons, List.nodup_cons]
      refine ⟨?_, hn⟩
      intro hm
      obtain ⟨p, hp, he⟩ := List.mem_map.1 hm
      exact lookup_eq_none.1 ha p hp he

end Orbit.Repl
