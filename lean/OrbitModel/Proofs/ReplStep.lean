import OrbitModel.Proofs.ReplInvF
/-!
# Replicator: `Inv` is preserved by `cancel`, `deliver`, `acquire`, `fetchFail`
-/
namespace Orbit.Repl

theorem mem_joinBatch {net : Nat → Info} {b log : List Nat} {h : Nat} :
    h ∈ joinBatch net log b ↔ h ∈ log ∨ (h ∈ b ∧ (net h).valid = true) := by
  induction b generalizing log with
  | nil => simp [joinBatch]
  | cons a b ih =>
    unfold joinBatch
    by_cases hc : ((net a).valid && !log.contains a) = true
    · rw [if_pos hc, ih]
      simp only [Bool.and_eq_true] at hc
      simp only [List.mem_append, List.mem_cons, List.not_mem_nil, or_false]
      constructor
      · rintro ((h1 | rfl) | ⟨h1, h2⟩)
        · exact Or.inl h1
        · exact Or.inr ⟨Or.inl rfl, hc.1⟩
        · exact Or.inr ⟨Or.inr h1, h2⟩
      · rintro (h1 | ⟨rfl | h1, h2⟩)
        · exact Or.inl (Or.inl h1)
        · exact Or.inl (Or.inr rfl)
        · exact Or.inr ⟨h1, h2⟩
    · rw [if_neg hc, ih]
      simp only [List.mem_cons]
      constructor
      · rintro (h1 | ⟨h1, h2⟩)
        · exact Or.inl h1
        · exact Or.inr ⟨Or.inr h1, h2⟩
      · rintro (h1 | ⟨rfl | h1, h2⟩)
        · exact Or.inl h1
        · left
          simp only [Bool.and_eq_true, h2, true_and, Bool.not_eq_true', Bool.not_eq_false] at hc
          simpa using hc
        · exact Or.inr ⟨h1, h2⟩

theorem joinBatch_nodup {net : Nat → Info} {b log : List Nat} (hn : log.Nodup) :
    (joinBatch net log b).Nodup := by
  induction b generalizing log with
  | nil => simpa [joinBatch] using hn
  | cons a b ih =>
    unfold joinBatch
    by_cases hc : ((net a).valid && !log.contains a) = true
    · rw [if_pos hc]
      apply ih
      simp only [Bool.and_eq_true, Bool.not_eq_true', List.contains_eq_mem, decide_eq_false_iff_not] at hc
      rw [List.nodup_append]
      refine ⟨hn, by simp, ?_⟩
      intro x hx y hy e
      rw [List.mem_singleton] at hy
      exact hc.2 (hy ▸ e ▸ hx)
    · rw [if_neg hc]; exact ih hn

theorem mem_removeAt {l l1 l2 : List Worker} {w w' : Worker} {i : Nat} (hw : l = l1 ++ w :: l2)
    (hrm : removeAt l i = l1 ++ l2) (h : w' ∈ removeAt l i) : w' ∈ l := by
  rw [hrm] at h; rw [hw]; exact mem_split_of h

/-- `acquire` of a worker whose context is done, before the flush -/
def acqCancel (s : St) (i hh : Nat) : St :=
  { delTask s hh with workers := removeAt s.workers i, queue := s.queue.filter (· != hh),
                      failed := hh :: s.failed }

/-- `acquire` with a free slot -/
def acqOk (s : St) (i ctx hh : Nat) : St :=
  let s1 := { setTask s hh .fetching with
    queue := s.queue.filter (· != hh), sem := s.sem - 1, inProgress := s.inProgress + 1 }
  { s1 with workers := s1.workers.set i ⟨ctx, hh, .fetching⟩ }

variable {net : Nat → Info} {c : Nat} {s : St}

theorem Inv.cancel (h : Inv net c s) (ctx : Nat) : Inv net c (step net s (.cancel ctx)) where
  toInvS := h.toInvS.congr rfl rfl rfl rfl rfl rfl rfl
  closure := h.closure.congr rfl rfl rfl rfl
  sem_eq := h.sem_eq
  buf_idle := h.buf_idle

theorem Inv.deliver (h : Inv net c s) : Inv net c (step net s .deliver) := by
  cases hp : s.pending with
  | nil => simp only [step, hp]; exact h
  | cons batch rest =>
    simp only [step, hp]
    refine ⟨⟨h.inprog_eq, h.keys_nodup, h.w_nodup, h.w_task, h.task_w, h.queue_eq, ?_, h.buf_got,
      h.fin_buf, h.buf_nodup, joinBatch_nodup h.log_nodup, ?_, ?_⟩, ?_, h.sem_eq, h.buf_idle⟩
    · intro b hb k hk; exact h.pend_fetched b (hp ▸ List.mem_cons_of_mem _ hb) k hk
    · intro k hk
      rcases mem_joinBatch.1 hk with hk | ⟨hk, hv⟩
      · exact h.log_ok k hk
      · have := h.pend_fetched batch (hp ▸ List.mem_cons_self) k hk
        exact ⟨this.1, hv, this.2⟩
    · intro k hk hv hf
      rcases h.fetched_in k hk hv hf with h' | h' | ⟨b, hb, h'⟩
      · exact Or.inl (mem_joinBatch.2 (Or.inl h'))
      · exact Or.inr (Or.inl h')
      · rw [hp] at hb
        rcases List.mem_cons.1 hb with rfl | hb
        · exact Or.inl (mem_joinBatch.2 (Or.inr ⟨h', hv⟩))
        · exact Or.inr (Or.inr ⟨b, hb, h'⟩)
    · exact h.closure.transfer (fun k _ hk => hk)
        (tracked_of (fun k hk => mem_joinBatch.2 (Or.inl hk)) (fun k hk => Or.inl hk) (fun k hk => hk))

/-- a worker gives up on `w.item`: the hash moves from `tasks` to `failed` -/
theorem Closure.drop {s' : St} (h : Closure net s) {hh : Nat}
    (h2 : s'.tasks = s.tasks.filter (·.1 != hh)) (h5 : s'.log = s.log)
    (h8 : s'.failed = hh :: s.failed) (hwk : ∀ w ∈ s'.workers, w ∈ s.workers) : Closure net s' := by
  have ht := lookup_filter_task h2
  apply h.transfer
  · intro k _ hk
    refine got_mono ?_ (fun w hw _ => hwk w hw) hk
    intro k hk
    rw [ht] at hk
    by_cases e : hh = k
    · simp [e] at hk
    · simpa only [e, if_false] using hk
  · apply tracked_of
    · intro k hk; exact h5 ▸ hk
    · intro k hk
      by_cases e : hh = k
      · exact Or.inr (h8 ▸ e ▸ List.mem_cons_self)
      · left; rw [ht]; simp only [e, if_false]; exact hk
    · intro k hk; exact h8 ▸ List.mem_cons_of_mem _ hk

theorem Inv.acquire (h : Inv net c s) (i : Nat) : Inv net c (step net s (.acquire i)) := by
  cases hwi : s.workers[i]? with
  | none => simp only [step, hwi]; exact h
  | some w =>
    obtain ⟨ctx, hh, pc⟩ := w
    cases pc with
    | fetching => simp only [step, hwi]; exact h
    | finishing => simp only [step, hwi]; exact h
    | waitSlot =>
      simp only [step, hwi]
      obtain ⟨l1, l2, hw, _, hrm, hset⟩ := split_at hwi
      have hnd := h.w_nodup; rw [hw] at hnd
      obtain ⟨_, hne⟩ := nodup_split hnd
      by_cases hc : s.cancelled.contains ctx = true
      · rw [if_pos hc]
        show Inv net c (flush (acqCancel s i hh))
        have hS : InvS net (acqCancel s i hh) := by
          refine h.toInvS.drop (w := ⟨ctx, hh, .waitSlot⟩) hw (by simp) hrm rfl ?_ ?_ rfl rfl rfl
          · show s.inProgress = _
            rw [h.inprog_eq, hw]; simp [List.countP_append]
          · show s.queue.filter (· != hh) = _
            rw [h.queue_eq, hw]
            exact queue_drop (w := ⟨ctx, hh, .waitSlot⟩) rfl hne
        have hC : Closure net (acqCancel s i hh) := h.closure.drop (hh := hh) rfl rfl rfl
          (fun w hm => mem_removeAt hw hrm hm)
        exact Inv.flushed 0 hS hC h.sem_eq
      · rw [if_neg hc]
        by_cases h0 : s.sem = 0
        · rw [if_pos h0]; exact h
        · rw [if_neg h0]
          show Inv net c (acqOk s i ctx hh)
          have hS := h.toInvS.promote (s' := acqOk s i ctx hh) hw (hset _) rfl rfl rfl rfl rfl rfl
          have htk := lookup_set_task (s := s) (s' := acqOk s i ctx hh) (h := hh) (t := .fetching) rfl
          have ht : task (acqOk s i ctx hh) hh = some .fetching := by rw [htk]; simp
          refine ⟨hS, ?_, ?_, fun _ => isIdle_false_of_task ht (by simp)⟩
          · apply h.closure.transfer
            · intro k _ hk
              refine got_mono ?_ ?_ hk
              · intro k hk
                rw [htk] at hk
                by_cases e : hh = k
                · simp [e] at hk
                · simpa only [e, if_false] using hk
              · intro w hm hp
                have hm' : w ∈ s.workers.set i ⟨ctx, hh, .fetching⟩ := hm
                rw [hset] at hm'
                rw [hw]
                exact mem_swap hm' (fun e => by rw [e] at hp; cases hp)
            · refine tracked_of (s := s) (s' := acqOk s i ctx hh) (fun k hk => hk) ?_ (fun k hk => hk)
              intro k hk
              left; rw [htk]
              by_cases e : hh = k
              · simp [e]
              · simp only [e, if_false]; exact hk
          · show s.sem - 1 + (s.inProgress + 1) = c
            have := h.sem_eq; omega

theorem Inv.fetchFail (h : Inv net c s) (i : Nat) : Inv net c (step net s (.fetchFail i)) := by
  cases hwi : s.workers[i]? with
  | none => simp only [step, hwi]; exact h
  | some w =>
    obtain ⟨ctx, hh, pc⟩ := w
    cases pc with
    | waitSlot => simp only [step, hwi]; exact h
    | finishing => simp only [step, hwi]; exact h
    | fetching =>
      simp only [step, hwi]
      obtain ⟨l1, l2, hw, _, hrm, _⟩ := split_at hwi
      have hnd := h.w_nodup; rw [hw] at hnd
      obtain ⟨_, hne⟩ := nodup_split hnd
      have hip : s.inProgress = (l1 ++ l2).countP isHold + 1 := by
        rw [h.inprog_eq, hw]; simp [List.countP_append, List.countP_cons]; omega
      rw [failedDone_eq]
      have hS : InvS net (failPre { s with workers := removeAt s.workers i } hh) := by
        refine h.toInvS.drop (w := ⟨ctx, hh, .fetching⟩) hw (by simp) hrm rfl ?_ ?_ rfl rfl rfl
        · show s.inProgress - 1 = _
          omega
        · show s.queue = _
          rw [h.queue_eq, hw]; simp [List.filter_append]
      have hC : Closure net (failPre { s with workers := removeAt s.workers i } hh) :=
        h.closure.drop (hh := hh) rfl rfl rfl (fun w hm => mem_removeAt hw hrm hm)
      refine Inv.flushed 1 hS hC ?_
      show s.sem + 1 + (s.inProgress - 1) = c
      have := h.sem_eq; omega

end Orbit.Repl
