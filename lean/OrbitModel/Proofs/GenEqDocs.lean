import OrbitModel.Generated.GenDocs
/-!
# Regenerated Go fragment = hand-written model (tie 2); one small module per fragment, so that a
change to one Go function only stops the theorems tied to it
-/
namespace Orbit

/-- `operation.GetDocs` in the Go text of this run leaves nil members out: the member loops of the
document store (`docAllRaw true`) never see one -/
theorem gen_getDocs_skips_nil : Gen.getDocsSkipsNil = true := by decide

end Orbit
