import OrbitModel.Proofs.StoreCovers
/-!
# Reachable stores keep their log covered by the cached heads

`StoreReachable`: stores built from an empty log by `AddOperation` (allowed or denied) and by
`replicationLoadComplete` of *any* honest batch (rejected logs are skipped).
`loadEndPinned_abort_uncovered` documents the repaired defect (F6): in the pinned tree, with a batch
whose second log is refused, the first log stayed merged while the cache kept naming only the old
head: the merged entry was in the log and not covered. The current code covers it (`loadEnd_covers`).
-/
namespace Orbit

inductive StoreReachable (acl : Acl) (U : List Entry) : Store → Prop
  /-- a store whose log is empty (fresh, or reopened: the cache may hold anything) -/
  | init (s : Store) (id : Nat) (h : s.log = Log.empty id) : StoreReachable acl U s
  | addOp {s : Store} (mk : Nat → List Nat → Entry) : StoreReachable acl U s →
      WriteOk acl U s.log mk → StoreReachable acl U (s.addOp acl mk).1
  | loadEnd {s : Store} (logs : List (OMap × OMap)) : StoreReachable acl U s →
      BatchHonest U s.log.id logs → StoreReachable acl U (s.loadEnd acl logs)

/-- **Every reachable store has a good log covered by `_localHeads ++ _remoteHeads`.** -/
theorem storeReachable_covers {acl : Acl} {U : List Entry} (hU : HashDet U) (hM : ClockMono U)
    {s : Store} (h : StoreReachable acl U s) : Good U s.log ∧ StoreCovers s := by
  induction h with
  | init s id h =>
    refine ⟨h ▸ good_empty U id, ?_⟩
    unfold StoreCovers
    rw [h]; exact coveredBy_empty id _
  | addOp mk _ hw ih => exact ⟨addOp_good hU hM ih.1 hw, addOp_covers hM ih.1 hw ih.2⟩
  | loadEnd logs _ hB ih => exact ⟨(loadEnd_good hU hM ih.1 hB).1, loadEnd_covers hU hM ih.1 hB⟩

/-- an allowed write covers the log whatever the cache held before -/
theorem addOp_ok_covers {acl : Acl} {U : List Entry} (hM : ClockMono U) {s : Store}
    {mk : Nat → List Nat → Entry} (hG : Good U s.log) (hw : WriteOk acl U s.log mk)
    (hcan : acl.canAppend (mk (appendTime s.log) (appendNext s.log)) = true) :
    StoreCovers (s.addOp acl mk).1 := by
  unfold StoreCovers Store.cachedHeads
  rw [addOp_log, addOp_localHeads, addOp_remoteHeads]
  obtain ⟨_, h2, _, h4⟩ := hw hcan
  simp only [hcan, if_true, Option.getD_some]
  exact (append_covers hM acl.canAppend s.log mk hG h2 h4 hcan).mono_heads
    (fun x hx => List.mem_append_left _ (by
      rcases List.mem_singleton.mp hx with rfl; exact List.mem_cons_self))

/-! ### The pinned tree: an aborted `replicationLoadComplete` left a merged entry uncovered -/

/-- the first step of a path: stay, or follow a `next` link of a member with that hash -/
theorem Desc.head_cases {L : Log} {h x : Nat} (d : Desc L h x) :
    h = x ∨ ∃ p ∈ L.entries, p.hash = h ∧ p.next ≠ [] := by
  cases d with
  | refl _ => exact Or.inl rfl
  | step hp _ hn _ => exact Or.inr ⟨_, hp, rfl, fun h0 => by rw [h0] at hn; cases hn⟩

namespace AbortExample

def a   : Entry := { hash := 1, logId := 1, time := 1, cid := 0, next := [] }
def b   : Entry := { hash := 2, logId := 1, time := 1, cid := 1, next := [] }
def bad : Entry := { hash := 3, logId := 1, time := 1, cid := 2, next := [], ident := 7 }
def U : List Entry := [a, b, bad]
def acl : Acl := { ids := [0] }

/-- a store that wrote `a` … -/
def s1 : Store := (({} : Store).addOp acl (fun _ _ => a)).1
/-- … and is handed a batch of two logs: `[b]` is merged, `[bad]` is refused -/
def batch : List (OMap × OMap) := [([b], [b]), ([bad], [bad])]
def s2 : Store := (s1.loadEndPinned acl batch).1

theorem hU : HashDet U := by unfold HashDet; decide
theorem hM : ClockMono U := by unfold ClockMono; decide

theorem s1_reachable : StoreReachable acl U s1 :=
  .addOp _ (.init {} 1 rfl) (fun _ => by decide)

theorem batch_honest : BatchHonest U s1.log.id batch := by
  unfold BatchHonest; intro p hp
  have : p = ([b], [b]) ∨ p = ([bad], [bad]) := by simpa [batch] using hp
  rcases this with rfl | rfl
  · exact ⟨⟨by decide, by decide⟩, by decide⟩
  · exact ⟨⟨by decide, by decide⟩, by decide⟩

end AbortExample

open AbortExample in
/-- **In the pinned tree `StoreCovers` was not preserved by an aborted batch** (F6, repaired). `s1` is
reachable (hence covered), the batch is honest, the pinned `replicationLoadComplete` reports failure,
the log now holds `b`, the cache still says `_localHeads = [a]`, `_remoteHeads` unset, and `b` is
not reachable from `a`. -/
theorem loadEndPinned_abort_uncovered :
    StoreCovers s1 ∧ (s1.loadEndPinned acl batch).2 = false ∧ s2.log.entries = [a, b] ∧
    s2.cachedHeads = [1] ∧ ¬ StoreCovers s2 := by
  refine ⟨(storeReachable_covers hU hM s1_reachable).2, by decide, by decide, by decide, ?_⟩
  intro hc
  obtain ⟨h, hh, d⟩ := hc b (by decide)
  have hh1 : h = 1 := by
    have : s2.cachedHeads = [1] := by decide
    rw [this] at hh; simpa using hh
  subst hh1
  rcases d.head_cases with h12 | ⟨p, hp, hp1, hpn⟩
  · exact absurd h12 (by decide)
  · have : ∀ p ∈ s2.log.entries, p.hash = 1 → p.next = [] := by decide
    exact hpn (this p hp hp1)

open AbortExample in
/-- the current code on the same batch: `[bad]` is skipped, `b` is merged, and `_remoteHeads` is
rewritten with both heads -/
theorem loadEnd_skip_covered :
    (s1.loadEnd acl batch).log.entries = [a, b] ∧ (s1.loadEnd acl batch).cachedHeads = [1, 2, 1] ∧
    StoreCovers (s1.loadEnd acl batch) :=
  ⟨by decide, by decide,
    loadEnd_covers hU hM (storeReachable_covers hU hM s1_reachable).1 batch_honest⟩

end Orbit
