import OrbitModel.Proofs.ReplSched
/-!
# Replicator: every move of the deterministic scheduler decreases a potential

`pot U s = 3·(fresh hashes of U) + Σ worker weights + #pending + busy`, where a waiting worker
weighs 3, a fetching one 2, a finishing one 1, a worker whose context is cancelled weighs `3·|U|` more
(its failure makes its hash fresh again), and `busy` is 1 while a worker is left: it pays for the
`LoadEnd` that the last worker's `idle()` may emit (`idle()` fires only when every task is `fetched`,
that is when no worker is left). `U` is any finite set of hashes closed under the links of this
log's entries.
-/
namespace Orbit.Repl

/-- `U` contains the links of each of its entries that belong to this log -/
def Closed (net : Nat → Info) (U : List Nat) : Prop :=
  ∀ h ∈ U, (net h).foreign = false → ∀ l ∈ (net h).links, l ∈ U

/-- the hashes the replicator is working on or will retry are in `U` -/
structure StIn (U : List Nat) (s : St) : Prop where
  workers : ∀ w ∈ s.workers, w.item ∈ U
  failed : ∀ h ∈ s.failed, h ∈ U

def isFresh (s : St) (k : Nat) : Bool := !(s.log.contains k || (task s k).isSome)
def fresh (U : List Nat) (s : St) : Nat := U.countP (isFresh s)
def wt (u : Nat) (canc : List Nat) (w : Worker) : Nat :=
  (if canc.contains w.ctx then 3 * u else 0) +
    (match w.pc with | .waitSlot => 3 | .fetching => 2 | .finishing => 1)
def wsum (u : Nat) (canc : List Nat) (ws : List Worker) : Nat := (ws.map (wt u canc)).sum
/-- the part of the potential that a `Load` with a live context does not increase -/
def potB (U : List Nat) (s : St) : Nat :=
  3 * fresh U s + wsum U.length s.cancelled s.workers + s.pending.length
/-- 1 while a worker is left -/
def busy (ws : List Worker) : Nat := if ws.isEmpty then 0 else 1
def pot (U : List Nat) (s : St) : Nat := potB U s + busy s.workers

theorem busy_le (ws : List Worker) : busy ws ≤ 1 := by unfold busy; split <;> omega
theorem busy_mid (l1 l2 : List Worker) (w : Worker) : busy (l1 ++ w :: l2) = 1 := by
  cases l1 <;> simp [busy]

theorem isFresh_iff {s : St} {k : Nat} : isFresh s k = true ↔ k ∉ s.log ∧ task s k = none := by
  unfold isFresh
  cases ht : task s k <;> simp

theorem fresh_le_length (U : List Nat) (s : St) : fresh U s ≤ U.length := List.countP_le_length

theorem fresh_mono {U : List Nat} {s s' : St} (hl : ∀ k ∈ s.log, k ∈ s'.log)
    (ht : ∀ k, task s k ≠ none → task s' k ≠ none) : fresh U s' ≤ fresh U s := by
  apply List.countP_mono_left
  intro k _ hk
  rw [isFresh_iff] at hk ⊢
  refine ⟨fun e => hk.1 (hl k e), ?_⟩
  cases e : task s k with
  | none => rfl
  | some t => exact absurd hk.2 (ht k (by simp [e]))

theorem countP_lt {p p' : Nat → Bool} {U : List Nat} {a : Nat} (hpp : ∀ x, p' x = true → p x = true)
    (ha : a ∈ U) (hpa : p a = true) (hpa' : p' a = false) : U.countP p' + 1 ≤ U.countP p := by
  induction U with
  | nil => cases ha
  | cons x U ih =>
    rw [List.countP_cons, List.countP_cons]
    by_cases hx : a = x
    · subst hx
      have := List.countP_mono_left (l := U) (p := p') (q := p) (fun x _ h => hpp x h)
      simp only [hpa, hpa', if_true, Bool.false_eq_true, if_false]; omega
    · have := ih (by rcases List.mem_cons.1 ha with h | h; exact absurd h hx; exact h)
      by_cases hx' : p' x = true
      · simp only [hx', hpp x hx', if_true]; omega
      · have hx'' : (if p' x = true then 1 else 0) = 0 := by simp [hx']
        rw [hx'']; omega

theorem countP_add_le {U : List Nat} (nw : List Nat) (p p' : Nat → Bool) (hnd : nw.Nodup)
    (hnew : ∀ k ∈ nw, k ∈ U ∧ p k = true) (hpp : ∀ k, p' k = true → p k = true ∧ k ∉ nw) :
    U.countP p' + nw.length ≤ U.countP p := by
  induction nw generalizing p with
  | nil =>
    simp only [List.length_nil, Nat.add_zero]
    exact List.countP_mono_left (fun x _ h => (hpp x h).1)
  | cons a nw ih =>
    rw [List.nodup_cons] at hnd
    have h1 := ih (fun k => p k && (k != a)) hnd.2
      (by
        intro k hk
        refine ⟨(hnew k (List.mem_cons_of_mem _ hk)).1, ?_⟩
        have : k ≠ a := fun e => hnd.1 (e ▸ hk)
        simp [(hnew k (List.mem_cons_of_mem _ hk)).2, this])
      (by
        intro k hk
        have := hpp k hk
        have hne : k ≠ a := fun e => this.2 (e ▸ List.mem_cons_self)
        exact ⟨by simp [this.1, hne], fun e => this.2 (List.mem_cons_of_mem _ e)⟩)
    have h2 := countP_lt (p := p) (p' := fun k => p k && (k != a)) (U := U) (a := a)
      (by intro x hx; simp at hx; exact hx.1) (hnew a List.mem_cons_self).1
      (hnew a List.mem_cons_self).2 (by simp)
    simp only [List.length_cons]; omega

theorem wsum_append (u : Nat) (canc : List Nat) (a b : List Worker) :
    wsum u canc (a ++ b) = wsum u canc a + wsum u canc b := by
  simp [wsum, List.sum_append]

theorem wsum_cons (u : Nat) (canc : List Nat) (w : Worker) (b : List Worker) :
    wsum u canc (w :: b) = wt u canc w + wsum u canc b := by
  simp [wsum]

theorem wsum_spawn (u : Nat) (canc : List Nat) (ctx : Nat) (nw : List Nat)
    (hc : canc.contains ctx = false) : wsum u canc (spawn ctx nw) = 3 * nw.length := by
  induction nw with
  | nil => rfl
  | cons a nw ih =>
    have : spawn ctx (a :: nw) = ⟨ctx, a, .waitSlot⟩ :: spawn ctx nw := rfl
    rw [this, wsum_cons, ih]
    simp only [wt, hc, Bool.false_eq_true, if_false, List.length_cons]; omega

theorem flush_pending_le (s : St) : (flush s).pending.length ≤ s.pending.length + 1 := by
  rcases flush_cases s with e | ⟨_, _, e⟩ <;> rw [e]
  · omega
  · simp

theorem done_pending_le (s : St) (h : Nat) : (done s h).pending.length ≤ s.pending.length + 1 :=
  flush_pending_le (donePre s h)

theorem failedDone_pending_le (s : St) (h : Nat) :
    (failedDone s h).pending.length ≤ s.pending.length + 1 :=
  flush_pending_le (failPre s h)

/-- `processEntryDone` emits no `LoadEnd` while another task is unfinished -/
theorem done_pending_of_unfinished {s : St} {h k : Nat} {t : TS} (hk : task s k = some t)
    (hne : t ≠ .fetched) (hkh : h ≠ k) : (done s h).pending = s.pending := by
  show (flush (donePre s h)).pending = s.pending
  rcases flush_cases (donePre s h) with e | ⟨hidle, _, _⟩
  · rw [e]; rfl
  · have ht : task (donePre s h) k = some t := by
      have : task (donePre s h) k = task (setTask s h .fetched) k := task_congr rfl k
      rw [this, task_setTask]; simp only [hkh, if_false]; exact hk
    rw [isIdle_false_of_task ht hne] at hidle; cases hidle

variable {net : Nat → Info} {c : Nat} {s s' : St} {U : List Nat}

theorem Move.cancelled_eq (m : Move net s s') : s'.cancelled = s.cancelled := by
  cases m <;> simp [giveUpSt, slotSt, bufSt, delTask, setTask]

/-- **progress**: each scheduler move strictly decreases the potential -/
theorem Move.pot_lt (hi : InvS net s) (hU : Closed net U) (hin : StIn U s) (m : Move net s s') :
    pot U s' < pot U s := by
  have hcan := m.cancelled_eq
  unfold pot potB
  rw [hcan]
  have hfl := fresh_le_length U s'
  have hb' := busy_le s'.workers
  cases m with
  | fail l1 l2 ctx hh hw hc =>
    have hp := failedDone_pending_le { s with workers := l1 ++ l2 } hh
    have hp' : ({ s with workers := l1 ++ l2 } : St).pending = s.pending := rfl
    rw [hp'] at hp
    have hb := busy_mid l1 l2 ⟨ctx, hh, .fetching⟩
    rw [failedDone_workers] at hb' ⊢
    simp only [hw, wsum_append, wsum_cons, wt, hc, if_true] at hb' ⊢
    omega
  | fetchedForeign l1 l2 ctx hh hw hc hf =>
    have hfr : fresh U { s with workers := l1 ++ ⟨ctx, hh, .finishing⟩ :: l2 } = fresh U s := rfl
    have hb := busy_mid l1 l2 ⟨ctx, hh, .fetching⟩
    have hb2 := busy_mid l1 l2 ⟨ctx, hh, .finishing⟩
    simp only [hfr, hw, wsum_append, wsum_cons, wt, hc, Bool.false_eq_true, if_false, hb, hb2]
    omega
  | fetched l1 l2 ctx hh nw hw hc hf hnd hnew hcov =>
    have hhU : hh ∈ U := hin.workers ⟨ctx, hh, .fetching⟩ (hw ▸ List.mem_append.2 (Or.inr List.mem_cons_self))
    have hfr : fresh U (enqd (bufSt s (l1 ++ ⟨ctx, hh, .finishing⟩ :: l2) hh) ctx nw) + nw.length
        ≤ fresh U s := by
      apply countP_add_le nw _ _ hnd
      · intro k hk
        exact ⟨hU hh hhU hf k (hnew k hk).1, isFresh_iff.2 ⟨(hnew k hk).2.2, (hnew k hk).2.1⟩⟩
      · intro k hk
        rw [isFresh_iff, task_enqd] at hk
        by_cases e' : k ∈ nw
        · simp [e'] at hk
        · simp only [e', if_false] at hk
          exact ⟨isFresh_iff.2 hk, e'⟩
    have hb := busy_mid l1 l2 ⟨ctx, hh, .fetching⟩
    have hb2 : busy ((l1 ++ ⟨ctx, hh, .finishing⟩ :: l2) ++ spawn ctx nw) = 1 := by
      rw [List.append_assoc, List.cons_append]; exact busy_mid _ _ _
    have hpd : (enqd (bufSt s (l1 ++ ⟨ctx, hh, .finishing⟩ :: l2) hh) ctx nw).pending = s.pending := rfl
    have hwk : (bufSt s (l1 ++ ⟨ctx, hh, .finishing⟩ :: l2) hh).workers
        = l1 ++ ⟨ctx, hh, .finishing⟩ :: l2 := rfl
    simp only [enqd_workers, hwk, hpd, hw, wsum_append, wsum_cons, wt, hc, Bool.false_eq_true, if_false,
      wsum_spawn _ _ _ _ hc, hb, hb2]
    omega
  | finish l1 l2 ctx hh hw =>
    have hfr : fresh U (done { s with workers := l1 ++ l2 } hh) ≤ fresh U s := by
      apply fresh_mono
      · intro k hk; rw [done_log]; exact hk
      · intro k hk
        rw [task_done]
        by_cases e : hh = k
        · simp [e]
        · simp only [e, if_false]; exact hk
    have hb := busy_mid l1 l2 ⟨ctx, hh, .finishing⟩
    -- the `LoadEnd` is emitted only by the last worker
    have hpb : (done { s with workers := l1 ++ l2 } hh).pending.length + busy (l1 ++ l2)
        ≤ s.pending.length + 1 := by
      cases hl : l1 ++ l2 with
      | nil =>
        have := done_pending_le { s with workers := l1 ++ l2 } hh
        have hp' : ({ s with workers := l1 ++ l2 } : St).pending = s.pending := rfl
        rw [hp', hl] at this
        simpa [busy] using this
      | cons w' ws =>
        have hm : w' ∈ l1 ++ l2 := hl ▸ List.mem_cons_self
        have hnd := hi.w_nodup; rw [hw] at hnd
        have hne := (nodup_split hnd).2 w' hm
        have ht := hi.w_task w' (hw ▸ mem_split_of hm)
        have := done_pending_of_unfinished (s := { s with workers := l1 ++ l2 }) (h := hh)
          ht (tsOf_ne_fetched _) (fun e => hne e.symm)
        rw [← hl, this]
        have := busy_le (l1 ++ l2)
        show s.pending.length + _ ≤ _
        omega
    rw [done_workers] at hb' ⊢
    simp only [hw, wsum_append, wsum_cons, wt, hb] at hb' hpb ⊢
    omega
  | giveUp l1 l2 ctx hh hw hc =>
    have hp := flush_pending_le (giveUpSt s (l1 ++ l2) hh)
    have hp' : (giveUpSt s (l1 ++ l2) hh).pending = s.pending := rfl
    rw [hp'] at hp
    have hwk : (flush (giveUpSt s (l1 ++ l2) hh)).workers = l1 ++ l2 := by rw [flush_workers]; rfl
    have hb := busy_mid l1 l2 ⟨ctx, hh, .waitSlot⟩
    rw [hwk] at hb' ⊢
    simp only [hw, wsum_append, wsum_cons, wt, hc, if_true, hb]
    omega
  | slot l1 l2 ctx hh hw hc hs =>
    have hfr : fresh U (slotSt s (l1 ++ ⟨ctx, hh, .fetching⟩ :: l2) hh) ≤ fresh U s := by
      apply fresh_mono
      · intro k hk; exact hk
      · intro k hk
        have := task_setTask s hh .fetching k
        show task (setTask s hh .fetching) k ≠ none
        rw [this]
        by_cases e : hh = k
        · simp [e]
        · simp only [e, if_false]; exact hk
    have hwk : (slotSt s (l1 ++ ⟨ctx, hh, .fetching⟩ :: l2) hh).workers = l1 ++ ⟨ctx, hh, .fetching⟩ :: l2 := rfl
    have hpd : (slotSt s (l1 ++ ⟨ctx, hh, .fetching⟩ :: l2) hh).pending = s.pending := rfl
    have hb := busy_mid l1 l2 ⟨ctx, hh, .waitSlot⟩
    have hb2 := busy_mid l1 l2 ⟨ctx, hh, .fetching⟩
    simp only [hwk, hpd, hw, wsum_append, wsum_cons, wt, hc, Bool.false_eq_true, if_false, hb, hb2]
    omega
  | deliver batch rest hp =>
    have hfr : fresh U { s with pending := rest, log := joinBatch net s.log batch } ≤ fresh U s := by
      apply fresh_mono
      · intro k hk; exact mem_joinBatch.2 (Or.inl hk)
      · intro k hk; exact hk
    simp only [hp, List.length_cons]
    omega

end Orbit.Repl
