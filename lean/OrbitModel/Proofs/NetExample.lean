import OrbitModel.Proofs.NetFinal
/-!
# Non-vacuity of the convergence theorem (C02)

Three replicas; entries `1` (by replica 0), `2` on top of `1` (by replica 1), `3` (by replica 2).
Two announcements are never delivered, one is delivered twice, replica 1 restarts; then a final
exchange runs and every replica holds all three acknowledged writes. Without the exchange
replica 0 lacks `2` and `3`.
-/
namespace Orbit.Net.Example

def exAnc : Nat → List Nat
  | 2 => [2, 1]
  | h => [h]

def u : Univ where
  anc := exAnc
  self_mem := by
    intro h
    unfold exAnc
    split <;> exact List.mem_cons_self
  trans := by
    intro h x hx y hy
    unfold exAnc at hx
    split at hx
    · simp only [List.mem_cons, List.not_mem_nil, or_false] at hx
      rcases hx with rfl | rfl
      · exact hy
      · simp only [exAnc, List.mem_singleton] at hy
        subst hy
        decide
    · simp only [List.mem_singleton] at hx
      subst hx
      exact hy

/-- the history: writes on three different replicas, one delivery (twice), two messages never
delivered, a fault, a restart -/
def history : List Act :=
  [ .write 0 1,            -- replica 0 writes 1
    .send 0 1,             -- soup[0]
    .recv 0 [1],           -- replica 1 learns 1
    .write 1 2,            -- replica 1 writes 2 on top of 1
    .write 2 3,            -- replica 2 writes 3
    .send 1 2,             -- soup[1]: never delivered
    .send 2 0,             -- soup[2]: never delivered
    .fault,
    .recv 0 [2],           -- duplicate delivery of soup[0]
    .restart 1 ]           -- replica 1 reloads from its cache

/-- a final phase with junk interleaved: every ordered pair is sent and that very message handled,
not in order, with a restart, a fault, a stale delivery and an undelivered send in between -/
def final : List Act :=
  [ .send 0 1,             -- soup[3]
    .send 0 2,             -- soup[4]
    .restart 0,
    .recv 4 [3, 1],        -- 2 handles soup[4]
    .recv 3 [2],           -- 1 handles soup[3]
    .send 1 0,             -- soup[5]
    .fault,
    .send 1 2,             -- soup[6]
    .recv 5 [2],           -- 0 handles soup[5]
    .recv 0 [2],           -- a stale duplicate
    .recv 6 [3, 2],        -- 2 handles soup[6]
    .send 2 0,             -- soup[7]
    .send 2 1,             -- soup[8]
    .send 2 1,             -- soup[9]: never delivered
    .recv 8 [3, 2],        -- 1 handles soup[8]
    .restart 2,
    .recv 7 [2, 3] ]       -- 0 handles soup[7]

theorem history_final_valid : ValidRun u (init 3) (history ++ final) :=
  validRun_of_validRunB (by decide)

theorem final_isFinal : FinalPhase u (run u (init 3) history) 3 final :=
  finalPhase_of_finalPhaseB (by decide)

/-- the general theorem applies: its hypotheses are satisfiable -/
theorem example_converges :
    ∀ r ∈ (run u (init 3) (history ++ final)).reps,
      ∀ h ∈ (run u (init 3) (history ++ final)).acked, h ∈ r.held :=
  converge_from_init u 3 history final history_final_valid final_isFinal

/-- the acknowledged writes are the three entries -/
example : (run u (init 3) (history ++ final)).acked = [3, 2, 1] := by decide

/-- and directly, by evaluation -/
example : (run u (init 3) (history ++ final)).reps.all
    (fun r => (run u (init 3) (history ++ final)).acked.all r.held.contains) = true := by decide

/-- the canonical exchange works too (`converge_canon`), here by evaluation -/
example : (run u (init 3) (history ++ canonFinal u (run u (init 3) history))).reps.all
    (fun r => [3, 2, 1].all r.held.contains) = true := by decide

/-- **the final phase matters**: after the (valid) history alone replica 0 lacks `2` and `3` -/
theorem history_valid : ValidRun u (init 3) history := validRun_of_validRunB (by decide)

example : ∃ r ∈ (run u (init 3) history).reps, ∃ h ∈ (run u (init 3) history).acked, h ∉ r.held :=
  ⟨{ held := [1], heads := [1] }, List.mem_of_getElem? (i := 0) (by rfl), 2, by decide, by decide⟩

/-- ... and an incomplete final phase (replica 2 never announces) is not enough either: it is valid,
it is write-free, yet replica 0 never learns `3` -/
def partialFinal : List Act :=
  [ .send 0 1, .recv 3 [2], .send 0 2, .recv 4 [3, 1], .send 1 0, .recv 5 [2], .send 1 2, .recv 6 [3, 2] ]

theorem partial_valid : ValidRun u (init 3) (history ++ partialFinal) :=
  validRun_of_validRunB (by decide)

example : finalPhaseB u (run u (init 3) history) 3 partialFinal = false := by decide

example : ((run u (init 3) (history ++ partialFinal)).reps[0]?).map (·.held.contains 3) = some false := by
  decide

end Orbit.Net.Example
