import OrbitModel.Proofs.Stable
import OrbitModel.Proofs.KvIndex
import OrbitModel.Proofs.DocIndex
/-!
# Histories: successive states of one replica's log, and the index that tracks them
-/
namespace Orbit

/-- `History ca U L₀ [L₁, …, Lₙ]`: each `Lᵢ₊₁` is one `Step` (local append, denied append, or
successful honest join of any batch) after `Lᵢ`. -/
inductive History (ca : Entry → Bool) (U : List Entry) : Log → List Log → Prop
  | nil (L : Log) : History ca U L []
  | cons {L L' : Log} {rest : List Log} : Step ca U L L' → History ca U L' rest → History ca U L (L' :: rest)

theorem history_grows {ca : Entry → Bool} {U : List Entry} (hU : HashDet U) (hT : TieFree U) (hM : ClockMono U) :
    ∀ {L : Log} {ls : List Log}, Good U L → History ca U L ls → Grows ((L :: ls).map values) := by
  intro L ls hG h
  induction h with
  | nil L => simp [Grows]
  | @cons L L' rest hs _ ih =>
    have hG' := good_step hU hM hG hs
    have hsub := good_step_values_sublist hU hT hM hG hs
    simp only [List.map_cons, Grows]
    exact ⟨fun e he => hsub.subset he, by simpa using ih hG'⟩

theorem history_getLast_good {ca : Entry → Bool} {U : List Entry} (hU : HashDet U) (hM : ClockMono U) :
    ∀ {L : Log} {ls : List Log}, Good U L → History ca U L ls → ∀ L' ∈ L :: ls, Good U L' := by
  intro L ls hG h
  induction h with
  | nil L => intro L' h'; simp at h'; exact h' ▸ hG
  | @cons L L' rest hs _ ih =>
    intro L'' h''
    rcases List.mem_cons.mp h'' with rfl | h''
    · exact hG
    · exact ih (good_step hU hM hG hs) L'' h''

end Orbit
