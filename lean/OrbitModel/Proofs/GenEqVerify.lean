import OrbitModel.Generated.GenVerify
import OrbitModel.Model.Order
/-!
# Regenerated Go fragment = hand-written model (tie 2): the steps of `VerifyEntryAuthor`, in order
-/
namespace Orbit

theorem gen_verifyAuthor_order : Gen.verifyAuthorOrder = Order.verifyAuthor := by decide

end Orbit
