import OrbitModel.Model.Params
/-!
# One parameters value, many calls: every database gets what a fresh value would have given it
-/
namespace Orbit.Params

/-- with the copy, a sequence of calls on one value is the sequence of calls on fresh copies of it -/
theorem run_copy (p : P) (calls : List (String × String)) :
    run useCopy p calls = calls.map (fun c => decide c.1 c.2 p) := by
  induction calls with
  | nil => rfl
  | cons c rest ih =>
    obtain ⟨cr, n⟩ := c
    simp only [run, useCopy, List.map_cons]
    rw [ih]

/-- so with no write list given, EVERY database's write list is its own creator's id, and its recorded name
its own name -/
theorem run_copy_defaults (calls : List (String × String)) :
    run useCopy {} calls = calls.map (fun c => { name := c.2, type := "ipfs", write := [c.1] }) := by
  rw [run_copy]
  apply List.map_congr_left
  intro c _
  simp [decide]

/-- the tree as it was: the second database made from the same value gets the FIRST creator's id as its
write list and the first database's name -/
theorem shared_value_leaks :
    run useShared {} [("A", "one"), ("B", "two")] =
      [{ name := "one", type := "ipfs", write := ["A"] }, { name := "one", type := "ipfs", write := ["A"] }] ∧
    run useCopy {} [("A", "one"), ("B", "two")] =
      [{ name := "one", type := "ipfs", write := ["A"] }, { name := "two", type := "ipfs", write := ["B"] }] := by
  decide

end Orbit.Params
