import OrbitModel.Proofs.LoadChain
/-!
# `Load(n)` on concrete chains: every limit, the pinned tree's panic, and the limit of the clamp  (C15)
-/
namespace Orbit.LoadExample

def c1 : Entry := { hash := 1, logId := 9, time := 1, cid := 0, next := [] }
def c2 : Entry := { hash := 2, logId := 9, time := 2, cid := 0, next := [1] }
def c3 : Entry := { hash := 3, logId := 9, time := 3, cid := 0, next := [2] }
def c4 : Entry := { hash := 4, logId := 9, time := 4, cid := 0, next := [3] }
def chain4 : List Entry := [c1, c2, c3, c4]
def chain3 : List Entry := [c1, c2, c3]
def acl : Acl := { wildcard := true }

/-- what a caller sees: the hashes of `Values()`, or the error -/
def listing (r : Except Err Store) : Except Err (List Nat) := r.map (fun s => (values s.log).map (·.hash))

/-- the bounded fetcher over a chain: the newest `n` entries from `h` down (everything if `n ≤ 0`) -/
def fetchN (c : List Entry) (n : Int) (h : Nat) : OMap :=
  let below := (c.filter (fun e => e.hash ≤ h)).reverse
  if n ≤ 0 then below else below.take n.toNat

/-- the same fetcher when it also brings the direct `next` of the last entry (go-ipfs-log does) -/
def fetchN1 (c : List Entry) (n : Int) (h : Nat) : OMap :=
  let below := (c.filter (fun e => e.hash ≤ h)).reverse
  if n ≤ 0 then below else below.take (n.toNat + 1)

/-- a freshly opened store of log 9 whose cache names the head `h` -/
def fresh (h : Nat) : Store := { log := Log.empty 9, localHeads := some [h] }

def loadN (f : List Entry → Int → Nat → OMap) (c : List Entry) (h : Nat) (n : Int) : Except Err (List Nat) :=
  listing (Store.load acl (fresh h) (f c (loadAmount n none)) n)

instance : DecidableEq (Except Err (List Nat)) := fun a b =>
  match a, b with
  | .ok x, .ok y => if h : x = y then isTrue (h ▸ rfl) else isFalse (fun e => h (by injection e))
  | .error x, .error y => if h : x = y then isTrue (h ▸ rfl) else isFalse (fun e => h (by injection e))
  | .ok _, .error _ => isFalse (fun e => by cases e)
  | .error _, .ok _ => isFalse (fun e => by cases e)

/-- **4-chain, every limit in [-2, 7]**: the last `min n 4` entries; everything for `n ≤ 0` -/
theorem load_chain4_all_limits :
    loadN fetchN chain4 4 (-2) = .ok [1, 2, 3, 4] ∧ loadN fetchN chain4 4 (-1) = .ok [1, 2, 3, 4] ∧
    loadN fetchN chain4 4 0 = .ok [1, 2, 3, 4] ∧ loadN fetchN chain4 4 1 = .ok [4] ∧
    loadN fetchN chain4 4 2 = .ok [3, 4] ∧ loadN fetchN chain4 4 3 = .ok [2, 3, 4] ∧
    loadN fetchN chain4 4 4 = .ok [1, 2, 3, 4] ∧ loadN fetchN chain4 4 5 = .ok [1, 2, 3, 4] ∧
    loadN fetchN chain4 4 6 = .ok [1, 2, 3, 4] ∧ loadN fetchN chain4 4 7 = .ok [1, 2, 3, 4] := by
  decide

/-- the same when the fetcher over-fetches by one entry: the trim cuts it back -/
theorem load_chain4_all_limits_overfetch :
    loadN fetchN1 chain4 4 (-2) = .ok [1, 2, 3, 4] ∧ loadN fetchN1 chain4 4 (-1) = .ok [1, 2, 3, 4] ∧
    loadN fetchN1 chain4 4 0 = .ok [1, 2, 3, 4] ∧ loadN fetchN1 chain4 4 1 = .ok [4] ∧
    loadN fetchN1 chain4 4 2 = .ok [3, 4] ∧ loadN fetchN1 chain4 4 3 = .ok [2, 3, 4] ∧
    loadN fetchN1 chain4 4 4 = .ok [1, 2, 3, 4] ∧ loadN fetchN1 chain4 4 5 = .ok [1, 2, 3, 4] ∧
    loadN fetchN1 chain4 4 6 = .ok [1, 2, 3, 4] ∧ loadN fetchN1 chain4 4 7 = .ok [1, 2, 3, 4] := by
  decide

/-- 5. **the pinned tree**: on a 3-chain, limit 4 panics and limit 0 empties the log; after the fix
both give the 3 entries -/
theorem loadPinned_witness :
    listing (Store.loadPinned acl (fresh 3) (fetchN chain3 4) 4) = .error .panic ∧
    listing (Store.loadPinned acl (fresh 3) (fetchN chain3 0) 0) = .ok [] ∧
    listing (Store.load acl (fresh 3) (fetchN chain3 4) 4) = .ok [1, 2, 3] ∧
    listing (Store.load acl (fresh 3) (fetchN chain3 (-1)) 0) = .ok [1, 2, 3] := by
  decide

/-! ### the general theorem applies -/

theorem chain4_isChain : IsChain 9 chain4 :=
  ⟨by decide, by decide, by decide, by decide⟩

example : ∃ s', Store.load acl (fresh 4) (fetchN chain4 2) 2 = .ok s' ∧ values s'.log = [c3, c4] :=
  load_single_head_chain_exact chain4_isChain acl (by decide) (by decide) (fresh 4) rfl rfl rfl
    (fetchN chain4 2) 2 (by decide) (by decide)

example : ∃ s', Store.load acl (fresh 4) (fetchN1 chain4 2) 2 = .ok s' ∧ values s'.log = [c3, c4] :=
  load_single_head_chain chain4_isChain acl (by decide) (fresh 4) 4 rfl rfl rfl
    (fetchN1 chain4 2) 2 1
    (by
      intro e
      rw [show fetchN1 chain4 2 4 = [c4, c3, c2] by decide, show List.drop 1 chain4 = [c2, c3, c4] by rfl]
      simp only [List.mem_cons, List.not_mem_nil, or_false]
      constructor <;> (rintro (h | h | h) <;> simp [h]))
    (by decide)

/-! ### the clamp is not enough on a log that is not closed

A store that received only the entry `c3` (heads exchange: a one-entry log) holds `c3` without its
parents: a good log, not closed. `Load(3)` then fetches `c4, c3, c2, c1`; the clamp counts the 3
entries not held, 4 in all, and so asks `Join` to keep 3; but `Join` stops at the held `c3` and
merges `c4` only: 2 values, and `tmp[len(tmp)-3:]` panics. `loadHead0_no_panic` excludes this with
`Closed L ∨ amount ≤ |L|`. -/

def okOr (x : Except Err Log) (d : Log) : Log := match x with | .ok l => l | .error _ => d

/-- the log after a heads exchange brought `c3` alone -/
def held : Log := okOr (join acl.canAppend (Log.empty 9) [c3] [c3] 9) (Log.empty 9)

theorem held_good : Good chain4 held :=
  reachable_good (canAppend := acl.canAppend) (id := 9) (by unfold HashDet; decide)
    (by unfold ClockMono; decide)
    (.step .empty (.join (Log.empty 9) held [c3] [c3] 9 ⟨by decide, by decide⟩ (by decide) rfl))

def isPanic (r : Except Err Log) : Bool := match r with | .error .panic => true | _ => false

/-- **a good, non-closed log on which the fixed `Load(3)` still panics** -/
theorem loadHead0_panic_nonclosed :
    isPanic (loadHead0 acl (fun _ => [c4, c3, c2, c1]) 3 held 4) = true ∧
    Fetched chain4 held [c4, c3, c2, c1] ∧ ¬ Closed held ∧ ¬ ((3 : Int) ≤ held.entries.length) := by
  refine ⟨by decide, ⟨by decide, by decide⟩, ?_, by decide⟩
  intro h
  exact absurd (h c3 (by decide) 2 (by decide)) (by decide)

/-- on the same log every amount that the hypothesis of `loadHead0_no_panic` allows is fine -/
example : loadHead0 acl (fun _ => [c4, c3, c2, c1]) 1 held 4 ≠ .error .panic :=
  loadHead0_no_panic (by unfold HashDet; decide) (by unfold TieFree; decide) (by unfold ClockMono; decide)
    acl _ 1 4 held_good ⟨by decide, by decide⟩ (Or.inr (by decide))

/-! ### two cached heads (checked instance only: the general statement for several heads is not
proved — after a trim the `Next` index is stale, so the log is no longer `Good`) -/

def f1 : Entry := { hash := 1, logId := 9, time := 1, cid := 0, next := [] }
def f2 : Entry := { hash := 2, logId := 9, time := 2, cid := 0, next := [1] }
def f3 : Entry := { hash := 3, logId := 9, time := 3, cid := 0, next := [2] }
def f4 : Entry := { hash := 4, logId := 9, time := 4, cid := 1, next := [2] }
def f5 : Entry := { hash := 5, logId := 9, time := 5, cid := 0, next := [3] }

/-- ancestry of the two heads `f5` (`f1 ← f2 ← f3 ← f5`) and `f4` (`f1 ← f2 ← f4`), newest first -/
def anc (h : Nat) : List Entry := if h = 5 then [f5, f3, f2, f1] else if h = 4 then [f4, f2, f1] else []

/-- bounded fetcher bringing one entry more than asked -/
def fetchFork (n : Int) (h : Nat) : OMap := if n ≤ 0 then anc h else (anc h).take (n.toNat + 1)

def loadFork (hs : List Nat) (n : Int) : Except Err (List Nat) :=
  listing (Store.load acl { log := Log.empty 9, localHeads := some hs } (fetchFork (loadAmount n none)) n)

theorem load_fork_all_limits :
    loadFork [5, 4] (-1) = .ok [1, 2, 3, 4, 5] ∧ loadFork [5, 4] 0 = .ok [1, 2, 3, 4, 5] ∧
    loadFork [5, 4] 1 = .ok [5] ∧ loadFork [5, 4] 2 = .ok [4, 5] ∧ loadFork [5, 4] 3 = .ok [3, 4, 5] ∧
    loadFork [5, 4] 4 = .ok [2, 3, 4, 5] ∧ loadFork [5, 4] 5 = .ok [1, 2, 3, 4, 5] ∧
    loadFork [5, 4] 6 = .ok [1, 2, 3, 4, 5] ∧
    loadFork [4, 5] 1 = .ok [5] ∧ loadFork [4, 5] 2 = .ok [4, 5] ∧ loadFork [4, 5] 3 = .ok [3, 4, 5] ∧
    loadFork [4, 5] 4 = .ok [2, 3, 4, 5] ∧ loadFork [4, 5] 5 = .ok [1, 2, 3, 4, 5] := by
  decide

end Orbit.LoadExample
