import OrbitModel.Proofs.ReplRun
/-!
# Replicator: the seven moves of the deterministic scheduler, in explicit form
-/
namespace Orbit.Repl

variable {net : Nat → Info} {c : Nat} {s : St}

/-- a waiting worker gives up (before the flush): workers become `ws` -/
def giveUpSt (s : St) (ws : List Worker) (hh : Nat) : St :=
  { delTask s hh with workers := ws, queue := s.queue.filter (· != hh), failed := hh :: s.failed }

/-- a waiting worker gets a slot: workers become `ws` -/
def slotSt (s : St) (ws : List Worker) (hh : Nat) : St :=
  { setTask s hh .fetching with
    queue := s.queue.filter (· != hh), sem := s.sem - 1, inProgress := s.inProgress + 1, workers := ws }

/-- a fetch returned an entry of this log (before its links are queued): workers become `ws`, the
hash is buffered -/
def bufSt (s : St) (ws : List Worker) (hh : Nat) : St :=
  { s with workers := ws, buffer := s.buffer ++ [hh] }

/-- what a move of the deterministic scheduler does -/
inductive Move (net : Nat → Info) (s : St) : St → Prop
  /-- a fetching worker whose context is done fails -/
  | fail (l1 l2 : List Worker) (ctx hh : Nat) (hw : s.workers = l1 ++ ⟨ctx, hh, .fetching⟩ :: l2)
      (hc : s.cancelled.contains ctx = true) :
      Move net s (failedDone { s with workers := l1 ++ l2 } hh)
  /-- a fetch returns an entry of another log: nothing is buffered or queued -/
  | fetchedForeign (l1 l2 : List Worker) (ctx hh : Nat)
      (hw : s.workers = l1 ++ ⟨ctx, hh, .fetching⟩ :: l2)
      (hc : s.cancelled.contains ctx = false) (hf : (net hh).foreign = true) :
      Move net s { s with workers := l1 ++ ⟨ctx, hh, .finishing⟩ :: l2 }
  /-- a fetch returns an entry of this log: it is buffered and its fresh links `nw` are queued -/
  | fetched (l1 l2 : List Worker) (ctx hh : Nat) (nw : List Nat)
      (hw : s.workers = l1 ++ ⟨ctx, hh, .fetching⟩ :: l2)
      (hc : s.cancelled.contains ctx = false) (hf : (net hh).foreign = false) (hnd : nw.Nodup)
      (hnew : ∀ k ∈ nw, k ∈ (net hh).links ∧ task s k = none ∧ k ∉ s.log)
      (hcov : ∀ k ∈ (net hh).links, k ∈ s.log ∨ task s k ≠ none ∨ k ∈ nw) :
      Move net s (enqd (bufSt s (l1 ++ ⟨ctx, hh, .finishing⟩ :: l2) hh) ctx nw)
  /-- a worker that has queued its parents runs `processEntryDone` -/
  | finish (l1 l2 : List Worker) (ctx hh : Nat) (hw : s.workers = l1 ++ ⟨ctx, hh, .finishing⟩ :: l2) :
      Move net s (done { s with workers := l1 ++ l2 } hh)
  /-- a waiting worker whose context is done gives up -/
  | giveUp (l1 l2 : List Worker) (ctx hh : Nat) (hw : s.workers = l1 ++ ⟨ctx, hh, .waitSlot⟩ :: l2)
      (hc : s.cancelled.contains ctx = true) :
      Move net s (flush (giveUpSt s (l1 ++ l2) hh))
  /-- a waiting worker gets a slot -/
  | slot (l1 l2 : List Worker) (ctx hh : Nat) (hw : s.workers = l1 ++ ⟨ctx, hh, .waitSlot⟩ :: l2)
      (hc : s.cancelled.contains ctx = false) (hs : s.sem ≠ 0) :
      Move net s (slotSt s (l1 ++ ⟨ctx, hh, .fetching⟩ :: l2) hh)
  /-- the store handles the oldest `LoadEnd` -/
  | deliver (batch : List Nat) (rest : List (List Nat)) (hp : s.pending = batch :: rest) :
      Move net s { s with pending := rest, log := joinBatch net s.log batch }

theorem findIdx_some {p : Worker → Bool} {l : List Worker} {i : Nat} (h : l.findIdx? p = some i) :
    ∃ w, l[i]? = some w ∧ p w = true := by
  obtain ⟨hi, hp, _⟩ := List.findIdx?_eq_some_iff_getElem.1 h
  exact ⟨l[i], List.getElem?_eq_getElem hi, hp⟩

theorem findIdx_none_pc {l : List Worker} {pc : PC} (h : l.findIdx? (fun w => w.pc == pc) = none)
    {w : Worker} (hw : w ∈ l) : w.pc ≠ pc := by
  have := List.findIdx?_eq_none_iff.1 h w hw
  simpa using this

/-- `pickMove = none` means quiescent -/
theorem pickMove_none (h : pickMove s = none) : s.workers = [] ∧ s.pending = [] := by
  unfold pickMove at h
  cases h0 : s.workers.findIdx? (fun w => w.pc == .finishing) with
  | some i => simp only [h0] at h; cases h
  | none =>
  simp only [h0] at h
  cases h1 : s.workers.findIdx? (fun w => w.pc == .fetching) with
  | some i =>
    obtain ⟨w, hw, _⟩ := findIdx_some h1
    simp only [h1, hw] at h
    split at h <;> cases h
  | none =>
    simp only [h1] at h
    cases h2 : s.workers.findIdx? (fun w => w.pc == .waitSlot) with
    | some i => simp only [h2] at h; cases h
    | none =>
      simp only [h2] at h
      constructor
      · cases hws : s.workers with
        | nil => rfl
        | cons w ws =>
          exfalso
          have m : w ∈ s.workers := hws ▸ List.mem_cons_self
          have a0 := findIdx_none_pc h0 m
          have a1 := findIdx_none_pc h1 m
          have a2 := findIdx_none_pc h2 m
          obtain ⟨_, _, pc⟩ := w
          cases pc
          · exact a2 rfl
          · exact a1 rfl
          · exact a0 rfl
      · cases hp : s.pending with
        | nil => rfl
        | cons b r => simp [hp] at h

/-- **every move of the deterministic scheduler is one of the seven `Move`s** -/
theorem pickMove_move (hi : Inv net c s) (hc : 0 < c) {a : Act} (h : pickMove s = some a) :
    Move net s (step net s a) := by
  unfold pickMove at h
  cases h0 : s.workers.findIdx? (fun w => w.pc == .finishing) with
  | some i =>
    obtain ⟨w, hwi, hpc⟩ := findIdx_some h0
    obtain ⟨ctx, hh, pc⟩ := w
    have : pc = .finishing := by simpa using hpc
    subst this
    obtain ⟨l1, l2, hw, _, hrm, _⟩ := split_at hwi
    simp only [h0, Option.some.injEq] at h
    subst h
    simp only [step, hwi, hrm]
    exact Move.finish l1 l2 ctx hh hw
  | none =>
  simp only [h0] at h
  cases h1 : s.workers.findIdx? (fun w => w.pc == .fetching) with
  | some i =>
    obtain ⟨w, hwi, hpc⟩ := findIdx_some h1
    obtain ⟨ctx, hh, pc⟩ := w
    have : pc = .fetching := by simpa using hpc
    subst this
    obtain ⟨l1, l2, hw, _, hrm, hset⟩ := split_at hwi
    simp only [h1, hwi] at h
    cases hcc : s.cancelled.contains ctx with
    | true =>
      simp only [hcc, if_true, Option.some.injEq] at h
      subst h
      simp only [step, hwi, hrm]
      exact Move.fail l1 l2 ctx hh hw hcc
    | false =>
      simp only [hcc, Bool.false_eq_true, if_false, Option.some.injEq] at h
      subst h
      simp only [step, hwi, hset, hcc, Bool.false_eq_true, if_false]
      cases hf : (net hh).foreign with
      | true => simp only [if_true]; exact Move.fetchedForeign l1 l2 ctx hh hw hcc hf
      | false =>
        simp only [Bool.false_eq_true, if_false]
        obtain ⟨nw, hnd, hnew, hcov, heq⟩ := foldl_enqueue_spec ctx (net hh).links
          (bufSt s (l1 ++ ⟨ctx, hh, .finishing⟩ :: l2) hh)
        show Move net s (List.foldl (enqueue ctx) (bufSt s (l1 ++ ⟨ctx, hh, .finishing⟩ :: l2) hh)
          (net hh).links)
        rw [heq]
        exact Move.fetched l1 l2 ctx hh nw hw hcc hf hnd hnew hcov
  | none =>
    simp only [h1] at h
    cases h2 : s.workers.findIdx? (fun w => w.pc == .waitSlot) with
    | some i =>
      simp only [h2, Option.some.injEq] at h
      subst h
      obtain ⟨w, hwi, hpc⟩ := findIdx_some h2
      obtain ⟨ctx, hh, pc⟩ := w
      have : pc = .waitSlot := by simpa using hpc
      subst this
      obtain ⟨l1, l2, hw, _, hrm, hset⟩ := split_at hwi
      simp only [step, hwi, hrm]
      cases hcc : s.cancelled.contains ctx with
      | true => simp only [if_true]; exact Move.giveUp l1 l2 ctx hh hw hcc
      | false =>
        simp only [Bool.false_eq_true, if_false]
        have hs : s.sem ≠ 0 := by
          have h0' : s.inProgress = 0 := by
            rw [hi.inprog_eq, List.countP_eq_zero]
            intro w hw
            have a0 := findIdx_none_pc h0 hw
            have a1 := findIdx_none_pc h1 hw
            obtain ⟨_, _, pc⟩ := w
            cases pc
            · simp
            · exact absurd rfl a1
            · exact absurd rfl a0
          have := hi.sem_eq; omega
        simp only [hs, if_false]
        have := Move.slot (net := net) l1 l2 ctx hh hw hcc hs
        rw [← hset] at this
        exact this
    | none =>
      simp only [h2] at h
      cases hp : s.pending with
      | nil => simp [hp] at h
      | cons b r =>
        simp only [hp, List.isEmpty_cons, Bool.false_eq_true, if_false, Option.some.injEq] at h
        subst h
        simp only [step, hp]
        exact Move.deliver b r hp

end Orbit.Repl
