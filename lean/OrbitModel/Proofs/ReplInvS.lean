import OrbitModel.Proofs.ReplInv
/-!
# Replicator: the structural invariant is preserved by the elementary moves (1)

`enqd` (queue fresh hashes), `drop` (a worker gives up: task deleted), `promote` (a waiting worker
gets a slot). `Proofs/ReplInvF.lean`: `toFin` (a fetch returns), `complete` (`processEntryDone`).
-/
namespace Orbit.Repl

theorem tsOf_ne_fetched (pc : PC) : tsOf pc ≠ .fetched := by cases pc <;> simp [tsOf]

theorem mem_split_of {l1 l2 : List Worker} {w w' : Worker} (h : w' ∈ l1 ++ l2) : w' ∈ l1 ++ w :: l2 := by
  rcases List.mem_append.1 h with h | h
  · exact List.mem_append.2 (Or.inl h)
  · exact List.mem_append.2 (Or.inr (List.mem_cons_of_mem _ h))

theorem mem_split_ne {l1 l2 : List Worker} {w w' : Worker} (h : w' ∈ l1 ++ w :: l2)
    (hne : w'.item ≠ w.item) : w' ∈ l1 ++ l2 := by
  rcases List.mem_append.1 h with h | h
  · exact List.mem_append.2 (Or.inl h)
  · rcases List.mem_cons.1 h with rfl | h
    · exact absurd rfl hne
    · exact List.mem_append.2 (Or.inr h)

theorem lookup_filter_task {s s' : St} {h : Nat} (h2 : s'.tasks = s.tasks.filter (·.1 != h)) (k : Nat) :
    task s' k = if h = k then none else task s k := by
  have := task_delTask s h k
  simp only [task_def, delTask] at this
  simp only [task_def, h2]; exact this

theorem lookup_set_task {s s' : St} {h : Nat} {t : TS}
    (h2 : s'.tasks = (h, t) :: s.tasks.filter (·.1 != h)) (k : Nat) :
    task s' k = if h = k then some t else task s k := by
  have := task_setTask s h t k
  simp only [task_def, setTask] at this
  simp only [task_def, h2]; exact this

theorem got_mono {s s' : St} (ht : ∀ k, task s k = some .fetched → task s' k = some .fetched)
    (hw : ∀ w ∈ s.workers, w.pc = .finishing → w ∈ s'.workers) {k : Nat} : got s k → got s' k := by
  rintro (hk | ⟨w, hm, e, hp⟩)
  · exact Or.inl (ht k hk)
  · exact Or.inr ⟨w, hw w hm hp, e, hp⟩

theorem InvS.enqd {net : Nat → Info} {s : St} (h : InvS net s) (ctx : Nat) {nw : List Nat}
    (hnd : nw.Nodup) (hnew : ∀ k ∈ nw, task s k = none) : InvS net (enqd s ctx nw) := by
  have hold : ∀ k t, task s k = some t → task (Orbit.Repl.enqd s ctx nw) k = some t := by
    intro k t hk
    rw [task_enqd]
    have : k ∉ nw := fun e => by rw [hnew k e] at hk; cases hk
    simp only [this, if_false]; exact hk
  have hitem : ∀ w ∈ s.workers, w.item ∉ nw := by
    intro w hw e
    have := h.w_task w hw
    rw [hnew _ e] at this; cases this
  refine ⟨?_, keys_nodup_enqd ctx h.keys_nodup hnd hnew, ?_, ?_, ?_, ?_, ?_, ?_, ?_, h.buf_nodup,
    h.log_nodup, ?_, ?_⟩
  · rw [enqd_inProgress, enqd_workers, List.countP_append, countP_spawn, Nat.add_zero]
    exact h.inprog_eq
  · rw [enqd_workers, List.map_append, spawn_items, List.nodup_append]
    refine ⟨h.w_nodup, hnd, ?_⟩
    intro a ha b hb e
    obtain ⟨w, hw, rfl⟩ := List.mem_map.1 ha
    exact hitem w hw (e ▸ hb)
  · intro w hw
    rw [enqd_workers] at hw
    rcases List.mem_append.1 hw with hw | hw
    · exact hold _ _ (h.w_task w hw)
    · obtain ⟨k, hk, rfl⟩ := mem_spawn.1 hw
      rw [task_enqd]; simp [hk, tsOf]
  · intro k t hk hne
    rw [task_enqd] at hk
    rw [enqd_workers]
    by_cases hkn : k ∈ nw
    · simp only [hkn, if_true, Option.some.injEq] at hk
      exact ⟨⟨ctx, k, .waitSlot⟩, List.mem_append.2 (Or.inr (mem_spawn.2 ⟨k, hkn, rfl⟩)), rfl, hk⟩
    · simp only [hkn, if_false] at hk
      obtain ⟨w, hw, e1, e2⟩ := h.task_w k t hk hne
      exact ⟨w, List.mem_append.2 (Or.inl hw), e1, e2⟩
  · rw [enqd_queue, enqd_workers, List.filter_append, filter_spawn, List.map_append, spawn_items,
      h.queue_eq]
  · intro b hb k hk
    exact ⟨hold _ _ (h.pend_fetched b hb k hk).1, (h.pend_fetched b hb k hk).2⟩
  · intro k hk
    refine ⟨got_mono (fun k hk => hold k _ hk) ?_ (h.buf_got k hk).1, (h.buf_got k hk).2⟩
    intro w hw _
    rw [enqd_workers]; exact List.mem_append.2 (Or.inl hw)
  · intro w hw hp hf
    rw [enqd_workers] at hw
    rcases List.mem_append.1 hw with hw | hw
    · exact h.fin_buf w hw hp hf
    · obtain ⟨k, _, rfl⟩ := mem_spawn.1 hw
      cases hp
  · intro k hk
    exact ⟨hold _ _ (h.log_ok k hk).1, (h.log_ok k hk).2⟩
  · intro k hk hv hf
    rw [inBP_enqd]
    rw [task_enqd] at hk
    by_cases hkn : k ∈ nw
    · simp [hkn] at hk
    · simp only [hkn, if_false] at hk
      exact h.fetched_in k hk hv hf

theorem InvS.drop {net : Nat → Info} {s s' : St} (h : InvS net s) {l1 l2 : List Worker} {w : Worker}
    (hw : s.workers = l1 ++ w :: l2) (hpc : w.pc ≠ .finishing) (h1 : s'.workers = l1 ++ l2)
    (h2 : s'.tasks = s.tasks.filter (·.1 != w.item))
    (h3 : s'.inProgress = (l1 ++ l2).countP isHold)
    (h4 : s'.queue = ((l1 ++ l2).filter isWait).map (·.item))
    (h5 : s'.log = s.log) (h6 : s'.buffer = s.buffer) (h7 : s'.pending = s.pending) : InvS net s' := by
  have hnd := h.w_nodup; rw [hw] at hnd
  obtain ⟨hnd', hne⟩ := nodup_split hnd
  have ht := lookup_filter_task h2
  have hwt : task s w.item = some (tsOf w.pc) := h.w_task w (hw ▸ List.mem_append.2 (Or.inr List.mem_cons_self))
  have hold : ∀ k, task s k = some .fetched → task s' k = some .fetched := by
    intro k hk
    rw [ht]
    have : ¬ w.item = k := fun e => by
      rw [← e, hwt] at hk; exact tsOf_ne_fetched _ (Option.some.inj hk)
    simp only [this, if_false]; exact hk
  have hback : ∀ k t, task s' k = some t → k ≠ w.item ∧ task s k = some t := by
    intro k t hk
    rw [ht] at hk
    by_cases e : w.item = k
    · simp [e] at hk
    · simp only [e, if_false] at hk; exact ⟨fun e' => e e'.symm, hk⟩
  have hbp : ∀ k, inBP s' k ↔ inBP s k := inBP_congr h6 h7
  have hfin : ∀ w' ∈ s.workers, w'.pc = .finishing → w' ∈ s'.workers := by
    intro w' hw' hp
    rw [hw] at hw'; rw [h1]
    rcases List.mem_append.1 hw' with hm | hm
    · exact List.mem_append.2 (Or.inl hm)
    · rcases List.mem_cons.1 hm with rfl | hm
      · exact absurd hp hpc
      · exact List.mem_append.2 (Or.inr hm)
  refine ⟨by rw [h3, h1], by rw [h2]; exact keys_nodup_filter _ h.keys_nodup, by rw [h1]; exact hnd',
    ?_, ?_, by rw [h4, h1], ?_, ?_, ?_, by rw [h6]; exact h.buf_nodup, by rw [h5]; exact h.log_nodup,
    ?_, ?_⟩
  · intro w' hw'
    rw [h1] at hw'
    rw [ht]
    have : ¬ w.item = w'.item := fun e => hne w' hw' e.symm
    simp only [this, if_false]
    exact h.w_task w' (hw ▸ mem_split_of hw')
  · intro k t hk hnf
    obtain ⟨hkw, hk'⟩ := hback k t hk
    obtain ⟨w', hw', e1, e2⟩ := h.task_w k t hk' hnf
    rw [hw] at hw'
    exact ⟨w', h1 ▸ mem_split_ne hw' (e1 ▸ hkw), e1, e2⟩
  · intro b hb k hk
    have := h.pend_fetched b (h7 ▸ hb) k hk
    exact ⟨hold k this.1, this.2⟩
  · intro k hk
    have := h.buf_got k (h6 ▸ hk)
    exact ⟨got_mono hold hfin this.1, this.2⟩
  · intro w' hw' hp hf
    rw [h6]
    exact h.fin_buf w' (hw ▸ mem_split_of (h1 ▸ hw')) hp hf
  · intro k hk
    have := h.log_ok k (h5 ▸ hk)
    exact ⟨hold k this.1, this.2⟩
  · intro k hk hv hf
    rw [h5, hbp]
    exact h.fetched_in k (hback k _ hk).2 hv hf

theorem InvS.promote {net : Nat → Info} {s s' : St} (h : InvS net s) {l1 l2 : List Worker}
    {ctx hh : Nat} (hw : s.workers = l1 ++ ⟨ctx, hh, .waitSlot⟩ :: l2)
    (h1 : s'.workers = l1 ++ ⟨ctx, hh, .fetching⟩ :: l2)
    (h2 : s'.tasks = (hh, .fetching) :: s.tasks.filter (·.1 != hh))
    (h3 : s'.inProgress = s.inProgress + 1)
    (h4 : s'.queue = s.queue.filter (· != hh))
    (h5 : s'.log = s.log) (h6 : s'.buffer = s.buffer) (h7 : s'.pending = s.pending) : InvS net s' := by
  have hnd := h.w_nodup; rw [hw] at hnd
  obtain ⟨_, hne⟩ := nodup_split hnd
  have ht := lookup_set_task h2
  have hwt : task s hh = some .added :=
    h.w_task ⟨ctx, hh, .waitSlot⟩ (hw ▸ List.mem_append.2 (Or.inr List.mem_cons_self))
  have hold : ∀ k, task s k = some .fetched → task s' k = some .fetched := by
    intro k hk
    rw [ht]
    have : ¬ hh = k := fun e => by rw [← e, hwt] at hk; cases hk
    simp only [this, if_false]; exact hk
  have hbp : ∀ k, inBP s' k ↔ inBP s k := inBP_congr h6 h7
  have hfin : ∀ w' ∈ s.workers, w'.pc = .finishing → w' ∈ s'.workers := by
    intro w' hw' hp
    rw [hw] at hw'; rw [h1]
    rcases List.mem_append.1 hw' with hm | hm
    · exact List.mem_append.2 (Or.inl hm)
    · rcases List.mem_cons.1 hm with rfl | hm
      · cases hp
      · exact List.mem_append.2 (Or.inr (List.mem_cons_of_mem _ hm))
  refine ⟨?_, by rw [h2]; exact keys_nodup_set _ _ h.keys_nodup, ?_, ?_, ?_, ?_, ?_, ?_, ?_,
    by rw [h6]; exact h.buf_nodup, by rw [h5]; exact h.log_nodup, ?_, ?_⟩
  · rw [h3, h1, h.inprog_eq, hw]
    simp [List.countP_append, List.countP_cons]; omega
  · rw [h1]; simpa using hnd
  · intro w' hw'
    rw [h1] at hw'
    rw [ht]
    by_cases e : w'.item = hh
    · have : w' = ⟨ctx, hh, .fetching⟩ := by
        rcases List.mem_append.1 hw' with hm | hm
        · exact absurd e (hne w' (List.mem_append.2 (Or.inl hm)))
        · rcases List.mem_cons.1 hm with rfl | hm
          · rfl
          · exact absurd e (hne w' (List.mem_append.2 (Or.inr hm)))
      subst this; simp [tsOf]
    · have e' : ¬ hh = w'.item := fun x => e x.symm
      simp only [e', if_false]
      apply h.w_task w'
      rw [hw]
      exact mem_split_of (mem_split_ne (w := ⟨ctx, hh, .fetching⟩) hw' e)
  · intro k t hk hnf
    rw [ht] at hk
    by_cases e : hh = k
    · simp only [e, if_true, Option.some.injEq] at hk
      exact ⟨⟨ctx, hh, .fetching⟩, h1 ▸ List.mem_append.2 (Or.inr List.mem_cons_self), e, hk⟩
    · simp only [e, if_false] at hk
      obtain ⟨w', hw', e1, e2⟩ := h.task_w k t hk hnf
      rw [hw] at hw'
      have hne' : w'.item ≠ hh := fun x => e (x.symm.trans e1)
      exact ⟨w', h1 ▸ mem_split_of (mem_split_ne (w := ⟨ctx, hh, .waitSlot⟩) hw' hne'), e1, e2⟩
  · rw [h4, h1, h.queue_eq, hw]
    have := queue_drop (l1 := l1) (l2 := l2) (w := ⟨ctx, hh, .waitSlot⟩) rfl hne
    rw [this]
    simp [List.filter_append, isWait]
  · intro b hb k hk
    have := h.pend_fetched b (h7 ▸ hb) k hk
    exact ⟨hold k this.1, this.2⟩
  · intro k hk
    have := h.buf_got k (h6 ▸ hk)
    exact ⟨got_mono hold hfin this.1, this.2⟩
  · intro w' hw' hp hf
    rw [h6]
    rw [h1] at hw'
    apply h.fin_buf w' _ hp hf
    rw [hw]
    rcases List.mem_append.1 hw' with hm | hm
    · exact List.mem_append.2 (Or.inl hm)
    · rcases List.mem_cons.1 hm with rfl | hm
      · cases hp
      · exact List.mem_append.2 (Or.inr (List.mem_cons_of_mem _ hm))
  · intro k hk
    have := h.log_ok k (h5 ▸ hk)
    exact ⟨hold k this.1, this.2⟩
  · intro k hk hv hf
    rw [h5, hbp]
    rw [ht] at hk
    by_cases e : hh = k
    · simp [e] at hk
    · simp only [e, if_false] at hk
      exact h.fetched_in k hk hv hf

end Orbit.Repl
