import OrbitModel.Generated.GenLogQuery
import OrbitModel.Model.Order
/-!
# Regenerated Go fragment = hand-written model (tie 2): event-log windows are taken over operations
-/
namespace Orbit

theorem gen_logQuery_order : Gen.logQueryOrder = Order.logQuery := by decide

theorem gen_logGet_order : Gen.logGetOrder = Order.logGet := by decide

end Orbit
