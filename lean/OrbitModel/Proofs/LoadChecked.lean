import OrbitModel.Proofs.LoadExamples
/-!
# `Load` says when a cached head did not come back   (C05, finding F32)
-/
namespace Orbit

/-- **a head that did not come back is reported**: whatever the other heads fetched, whatever the
limit, `Load` is an error as soon as one cached head is missing from what the fetcher returned for it -/
theorem loadChecked_error_of_missing_head (acl : Acl) (s : Store) (fetch : Nat → OMap) (amount : Int)
    (mh : Option Int) (h : Nat) (hm : h ∈ s.cachedHeads) (hf : has (fetch h) h = false) :
    s.loadChecked acl fetch amount mh = .error .notFound := by
  unfold Store.loadChecked
  have : (s.cachedHeads.any fun h => !has (fetch h) h) = true :=
    List.any_eq_true.mpr ⟨h, hm, by simp [hf]⟩
  unfold Store.cachedHeads at this
  simp only [this, if_true]

/-- **a successful `Load` fetched every cached head**, and is then exactly the modelled load -/
theorem loadChecked_ok_iff (acl : Acl) (s s' : Store) (fetch : Nat → OMap) (amount : Int) (mh : Option Int) :
    s.loadChecked acl fetch amount mh = .ok s' ↔
      (∀ h ∈ s.cachedHeads, has (fetch h) h = true) ∧ s.load acl fetch amount mh = .ok s' := by
  unfold Store.loadChecked Store.cachedHeads
  simp only []
  constructor
  · intro hk
    split at hk
    · cases hk
    · rename_i hn
      refine ⟨fun h hm => ?_, hk⟩
      have := hn
      simp only [List.any_eq_true, not_exists, not_and] at this
      have := this h hm
      simpa using this
  · rintro ⟨hall, hl⟩
    have : ((s.localHeads.getD [] ++ s.remoteHeads.getD []).any fun h => !has (fetch h) h) = false := by
      rw [List.any_eq_false]
      intro h hm
      simp [hall h hm]
    simp only [this, Bool.false_eq_true, if_false]
    exact hl

/-- with a fetcher that brings nothing (the context has ended), every non-empty cache is an error -/
theorem loadChecked_under_an_ended_context (acl : Acl) (s : Store) (amount : Int) (mh : Option Int)
    (hne : s.cachedHeads ≠ []) : s.loadChecked acl (fun _ => []) amount mh = .error .notFound := by
  obtain ⟨h, hm⟩ := List.exists_mem_of_ne_nil _ hne
  exact loadChecked_error_of_missing_head acl s _ amount mh h hm rfl

/-- **before the fix**: the same load reported success over an empty log (the 4-chain of
`LoadExample`, persisted and cached under its head, fetcher bringing nothing) -/
theorem load_reported_success_over_nothing_before_the_fix :
    LoadExample.listing (Store.load LoadExample.acl (LoadExample.fresh 4) (fun _ => []) (-1)) = .ok [] ∧
    LoadExample.listing (Store.loadChecked LoadExample.acl (LoadExample.fresh 4) (fun _ => []) (-1)) = .error .notFound ∧
    LoadExample.listing (Store.loadChecked LoadExample.acl (LoadExample.fresh 4)
      (LoadExample.fetchN LoadExample.chain4 (-1)) (-1)) = .ok [1, 2, 3, 4] := by
  decide

/-- the cached heads that came back from the fetcher -/
def Store.headsBack (s : Store) (fetch : Nat → OMap) : Store :=
  { s with localHeads := s.localHeads.map (List.filter fun h => has (fetch h) h),
           remoteHeads := s.remoteHeads.map (List.filter fun h => has (fetch h) h) }

/-- **a Load that failed leaves what the other heads led to readable**: the log is the log of the load
over the heads that came back, the view is the replay of exactly that log, the cache is untouched -
for every store, fetcher and amount. -/
theorem loadReadable_spec (acl : Acl) (s t : Store) (fetch : Nat → OMap) (amount : Int)
    (h : (s.headsBack fetch).load acl fetch amount = .ok t) :
    (s.loadReadable acl fetch amount).log = t.log ∧
    (s.loadReadable acl fetch amount).idx = updateIndex s.kind s.idx t.log ∧
    (s.loadReadable acl fetch amount).localHeads = s.localHeads ∧
    (s.loadReadable acl fetch amount).remoteHeads = s.remoteHeads := by
  unfold Store.headsBack at h
  unfold Store.loadReadable
  simp [h]

/-- two cached heads, the block of one is gone - the log holds what the other
led to and it is listed (`loadChecked` alone says
nothing about the state) -/
theorem failed_load_lists_what_came_back :
    let s := LoadExample.fresh 4
    let fetch := LoadExample.fetchN LoadExample.chain4 (-1)
    let s2 : Store := { s with remoteHeads := some [99] }
    LoadExample.listing (s2.loadChecked LoadExample.acl fetch (-1)) = .error .notFound ∧
    LoadExample.listing (.ok (s2.loadReadable LoadExample.acl fetch (-1))) = .ok [1, 2, 3, 4] := by
  intro s fetch s2
  decide

end Orbit
