import OrbitModel.Proofs.StoreCovers
/-!
# What the cached heads reach never shrinks in a replication round   (C05, finding F26)

`ReachU U hs x`: the hash `x` is reachable from one of the hashes `hs` by following `next` links between
entries of the universe `U` (what `Load(-1)` rebuilds from the cache, all blocks being retrievable).
For EVERY store state — in particular a store that was opened with a limit and holds only part of
what its cache points to — `replicationLoadComplete` keeps everything reachable: a cached remote head
is kept, or the log holds it and then the new heads reach it.
-/
namespace Orbit

inductive ReachU (U : List Entry) (hs : List Nat) : Nat → Prop
  | root {h : Nat} (hh : h ∈ hs) : ReachU U hs h
  | step {p : Entry} {n : Nat} (hp : ReachU U hs p.hash) (hU : p ∈ U) (hn : n ∈ p.next) : ReachU U hs n

/-- reachability is monotone in the roots, up to reachability -/
theorem ReachU.of_roots {U : List Entry} {hs hs' : List Nat} (h : ∀ r ∈ hs, ReachU U hs' r) {x : Nat}
    (d : ReachU U hs x) : ReachU U hs' x := by
  induction d with
  | root hh => exact h _ hh
  | step _ hU hn ih => exact .step ih hU hn

/-- a path inside a log whose entries are in `U` continues any path of `U` that reaches its start -/
theorem Desc.reachU_from {U : List Entry} {L : Log} (hsub : ∀ e ∈ L.entries, e ∈ U) {hs : List Nat} {h x : Nat}
    (d : Desc L h x) : ReachU U hs h → ReachU U hs x := by
  induction d with
  | refl _ => exact id
  | step hp _ hn _ ih => exact fun hr => ih (.step hr (hsub _ hp) hn)

theorem Desc.reachU {U : List Entry} {L : Log} (hsub : ∀ e ∈ L.entries, e ∈ U) {hs : List Nat} {h x : Nat}
    (d : Desc L h x) (hh : h ∈ hs) : ReachU U hs x := d.reachU_from hsub (.root hh)

/-- **a replication round never shrinks what the cache reaches**, whatever the store had loaded -/
theorem loadEnd_reach_mono {acl : Acl} {U : List Entry} (hU : HashDet U) (hM : ClockMono U) {s : Store}
    {logs : List (OMap × OMap)} (hG : Good U s.log) (hB : BatchHonest U s.log.id logs) :
    ∀ x, ReachU U s.cachedHeads x → ReachU U (s.loadEnd acl logs).cachedHeads x := by
  intro x hx
  apply ReachU.of_roots _ hx
  intro r hr
  unfold Store.cachedHeads at hr ⊢
  rcases List.mem_append.mp hr with hl | hrm
  · -- a local head: untouched
    exact .root (List.mem_append_left _ (by rw [(loadEnd_heads acl s logs).1]; exact hl))
  · rcases loadEnd_keeps_cached acl s logs r hrm with hk | hheld
    · exact .root (List.mem_append_right _ hk)
    · -- the log holds it: the heads of the merged log reach it
      obtain ⟨y, hy, hyr⟩ := (has_iff _ _).mp hheld
      have hgood := (loadEnd_good (acl := acl) hU hM hG hB).1
      obtain ⟨h, hh, d⟩ := sortedHeads_cover hM hgood.inv y hy
      rw [hyr] at d
      apply d.reachU hgood.inv.sub
      apply List.mem_append_right
      rw [(loadEnd_heads acl s logs).2]
      simp only [Option.getD_some]
      exact List.mem_append_left _ hh

end Orbit
