import OrbitModel.Proofs.EmitterFifo
/-!
# C18 for the legacy channel API: shutdown of `handleSubscriber`

* `Ctl` / `ctl_run`               control-state invariant of both code versions;
* `closed_only_after_both_done`  the channel is closed only after G1 returned, G2 left its loop and
                                  the context ended (every schedule, both versions);
* `after_close`                   once closed, the subscriber only ever receives what was already in
                                  the channel;
* `NoLostWake` / `stops`          repaired code: from every reachable cancelled state the fixed
                                  schedule `stopSchedule` ends with both goroutines gone and the
                                  channel closed;
* `pinned_lost_wakeup`, `pinned_stuck_forever`  pinned code: the un-locked signal is lost and *no*
                                  continuation ever closes the channel.
-/
namespace Orbit.Emit

/-! ## Control-state invariant (both versions) -/

/-- * the channel is closed only when G1 is done and G2 has exited;
    * G1 returns only through `ctx.Done()`, G2 leaves its loop only on a dead context;
    * while G2 is between its emptiness check and the end of `Wait()`, the queue is empty
      (a G1 that enqueues wakes it). -/
structure Ctl (s : St) : Prop where
  closed_done : s.closed = true → s.g1done = true ∧ s.g2 = .exited
  g1done_canc : s.g1done = true → s.cancelled = true
  exited_canc : s.g2 = .exited → s.cancelled = true
  wait_empty  : s.g2 = .checked ∨ s.g2 = .waiting → s.queue = []

theorem ctl_init (cap : Nat) : Ctl (init cap) := by
  constructor <;> simp [init]

theorem ctl_step (p : Bool) (s : St) (a : Act) (h : Ctl s) : Ctl (step p s a) := by
  obtain ⟨h1, h2, h3, h4⟩ := h
  cases a with
  | emit e => simp only [step]; split <;> constructor <;> simp_all
  | cancel => constructor <;> simp_all [step]
  | recv => simp only [step]; split <;> constructor <;> simp_all
  | g1 =>
    simp only [step]
    (repeat' split) <;> constructor <;> simp_all [g2HoldsLock] <;> (cases hg : s.g2 <;> simp_all)
  | g2 =>
    simp only [step]
    (repeat' split) <;> constructor <;> simp_all

theorem ctl_run (p : Bool) (cap : Nat) (acts : List Act) : Ctl (run p (init cap) acts) :=
  run_inv (ctl_step p) acts _ (ctl_init cap)

/-- **C18, safety (every schedule, repaired and pinned).** `close(cevent)` happens only after the
forwarder has returned, the drainer has left its loop, and the context has ended. -/
theorem closed_only_after_both_done (p : Bool) (cap : Nat) (acts : List Act) :
    let s := run p (init cap) acts
    s.closed = true → s.g1done = true ∧ s.g2 = .exited ∧ s.cancelled = true := by
  intro s hc
  have h := ctl_run p cap acts
  exact ⟨(h.closed_done hc).1, (h.closed_done hc).2, h.g1done_canc (h.closed_done hc).1⟩

/-! ## After close nothing new enters the channel -/

/-- G1 returned, G2 left the loop, context dead: a terminal control state -/
def Dead (s : St) : Prop := s.g1done = true ∧ s.g2 = .exited ∧ s.cancelled = true

theorem dead_step (p : Bool) (s : St) (a : Act) (h : Dead s) :
    Dead (step p s a) ∧
    (step p s a).delivered ++ (step p s a).chan = s.delivered ++ s.chan ∧
    (step p s a).emitted = s.emitted := by
  obtain ⟨h1, h2, h3⟩ := h
  unfold Dead
  cases a with
  | emit e => simp [step, *]
  | cancel => simp [step, *]
  | recv => simp only [step]; split <;> simp_all
  | g1 => simp [step, *]
  | g2 => simp only [step, h2]; split <;> simp_all

theorem dead_run (p : Bool) (acts : List Act) : ∀ s, Dead s →
    (run p s acts).delivered ++ (run p s acts).chan = s.delivered ++ s.chan ∧
    (run p s acts).emitted = s.emitted := by
  induction acts with
  | nil => intro s _; exact ⟨rfl, rfl⟩
  | cons a l ih =>
    intro s h
    obtain ⟨hd, h1, h2⟩ := dead_step p s a h
    obtain ⟨i1, i2⟩ := ih _ hd
    exact ⟨by rw [run_cons, i1, h1], by rw [run_cons, i2, h2]⟩

/-- **C18, safety, second half.** Once the channel is closed, whatever happens next the subscriber
only drains what the channel already held (and nothing is emitted to it any more). -/
theorem after_close (p : Bool) (cap : Nat) (acts acts' : List Act) :
    let s := run p (init cap) acts
    s.closed = true →
    let t := run p s acts'
    t.delivered ++ t.chan = s.delivered ++ s.chan ∧ t.emitted = s.emitted := by
  intro s hc
  exact dead_run p acts' s (closed_only_after_both_done p cap acts hc)

/-! ## Repaired code: the shutdown signal cannot be lost -/

/-- The signal is sent under the lock, so G1 cannot return while G2 sits between its check and
`Wait()`; and a G2 inside `Wait()` is woken by it. Hence: once G1 is done, G2 is not (about to be)
waiting. -/
def NoLostWake (s : St) : Prop := s.g1done = true → s.g2 ≠ .checked ∧ s.g2 ≠ .waiting

theorem noLostWake_step (s : St) (a : Act) (hC : Ctl s) (h : NoLostWake s) :
    NoLostWake (step false s a) := by
  unfold NoLostWake at *
  have hgc := hC.g1done_canc
  cases a with
  | emit e => simp only [step]; split <;> simp_all
  | cancel => simpa [step] using h
  | recv => simp only [step]; split <;> simp_all
  | g1 =>
    simp only [step]
    (repeat' split) <;> simp_all [g2HoldsLock] <;> (cases hg : s.g2 <;> simp_all)
  | g2 =>
    simp only [step]
    (repeat' split) <;> simp_all

theorem noLostWake_run (cap : Nat) (acts : List Act) : NoLostWake (run false (init cap) acts) := by
  have : Ctl (run false (init cap) acts) ∧ NoLostWake (run false (init cap) acts) :=
    run_inv (P := fun s => Ctl s ∧ NoLostWake s)
      (fun s a h => ⟨ctl_step false s a h.1, noLostWake_step s a h.1 h.2⟩) acts _
      ⟨ctl_init cap, by simp [NoLostWake, init]⟩
  exact this.2

/-- G2 first (leaves a blocking send / releases the lock by entering `Wait()`), then G1 (signals and
returns), then G2 runs to `close`. -/
def stopSchedule : List Act := [.g2, .g1, .g2, .g2, .g2]

theorem stops_from (s : St) (hW : NoLostWake s) (hc : s.cancelled = true) :
    let t := run false s stopSchedule
    t.g1done = true ∧ t.g2 = .exited ∧ t.closed = true := by
  unfold NoLostWake at hW
  simp only [stopSchedule, run_cons, run_nil]
  cases hg : s.g2 <;> cases hd : s.g1done <;> cases hcl : s.closed <;>
    simp_all [step, g2HoldsLock]

/-- **C18, liveness (repaired code).** From every reachable state in which the context has ended —
whatever G1 and G2 were doing, whatever is queued, whether or not the subscriber still reads — five
scheduler steps end all background activity and close the channel. -/
theorem stops (cap : Nat) (acts : List Act) :
    let s := run false (init cap) acts
    s.cancelled = true →
    let t := run false s stopSchedule
    t.g1done = true ∧ t.g2 = .exited ∧ t.closed = true :=
  fun hc => stops_from _ (noLostWake_run cap acts) hc

/-- the form asked for -/
theorem stops_closed (cap : Nat) (acts : List Act) :
    let s := run false (init cap) acts
    s.cancelled = true → (run false s stopSchedule).closed = true :=
  fun hc => (stops cap acts hc).2.2

/-! ## Pinned code: the lost wake-up -/

/-- G2 checks (live context, empty queue) and is about to `Wait()`; the context ends; G1 signals
without the lock — nobody is waiting yet — and returns; G2 enters `Wait()`. -/
def lostWakeSchedule : List Act := [.g2, .cancel, .g1, .g2, .g2, .g2]

/-- **pinned defect (F-emit-stop).** -/
theorem pinned_lost_wakeup :
    let s := run true (init 1) lostWakeSchedule
    s.g2 = .waiting ∧ s.g1done = true ∧ s.cancelled = true ∧ s.closed = false := by decide

/-- G2 inside `Wait()`, the only signaller gone, channel open -/
def Stuck (s : St) : Prop :=
  s.g2 = .waiting ∧ s.g1done = true ∧ s.cancelled = true ∧ s.closed = false

theorem stuck_step (p : Bool) (s : St) (a : Act) (h : Stuck s) : Stuck (step p s a) := by
  obtain ⟨h1, h2, h3, h4⟩ := h
  unfold Stuck
  cases a with
  | emit e => simp [step, *]
  | cancel => simp [step, *]
  | recv => simp only [step]; split <;> simp_all
  | g1 => simp [step, *]
  | g2 => simp [step, *]

/-- … and no continuation whatsoever closes the channel: the goroutine and the channel leak. -/
theorem pinned_stuck_forever (acts : List Act) :
    (run true (run true (init 1) lostWakeSchedule) acts).closed = false ∧
    (run true (run true (init 1) lostWakeSchedule) acts).g2 = .waiting := by
  have h := run_inv (stuck_step true) acts _ pinned_lost_wakeup
  exact ⟨h.2.2.2, h.1⟩

/-- the repaired code on the same schedule: G1 is blocked on the lock while G2 is `checked`; one more
round and everything is closed -/
theorem repaired_no_lost_wakeup :
    (run false (init 1) lostWakeSchedule).closed = false ∧
    (run false (init 1) (lostWakeSchedule ++ [.g1, .g2, .g2])).closed = true := by decide

/-- non-vacuity of `stops`: cancelled states with G2 in each of its five program points -/
example : (run false (init 1) [.cancel]).g2 = .top ∧
    (run false (init 1) [.g2, .cancel]).g2 = .checked ∧
    (run false (init 1) [.g2, .g2, .cancel]).g2 = .waiting ∧
    (run false (init 0) [.emit 7, .g1, .g2, .cancel]).g2 = .sending 7 ∧
    (run false (init 1) [.cancel, .g2]).g2 = .exited := by decide

end Orbit.Emit
