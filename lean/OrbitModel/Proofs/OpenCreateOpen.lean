import OrbitModel.Proofs.OpenCreate
/-!
# `Open`: local-only refusal, what is handed back, `Create` then `Open`   (C14)
-/
namespace Orbit.OC
open Orbit.Path

variable {isCid : String → Bool} {H : String → String → List String → String}

/-- the name test of `Open`: a manifest stored under the root of the address carries the name the
address ends with -/
def Named (isCid : String → Bool) (s : St) (a : Addr) : Prop :=
  ∀ m, fetch s.net a.root = some m → named isCid a m = true

theorem named_of_fetch {s : St} {a : Addr} {m0 : Manifest} (hf : fetch s.net a.root = some m0)
    (hn : named isCid a m0 = true) : Named isCid s a := by
  intro m hm
  rw [hf] at hm
  cases hm
  exact hn

theorem named_of_no_manifest {s : St} {a : Addr} (hf : fetch s.net a.root = none) : Named isCid s a := by
  intro m hm
  rw [hf] at hm
  cases hm

/-- a valid address whose manifest names it goes straight to the checks of `openValid` -/
theorem open_valid {s : St} {addr : String} {a : Addr} (o : Opts) (hp : parse isCid addr = some a)
    (hn : Named isCid s a) : «open» isCid H s addr o = record (canon isCid a) (openValid s a o) := by
  unfold «open»
  rw [hp]
  dsimp only
  cases hf : fetch s.net a.root with
  | none => rfl
  | some m => simp [hn m hf]

/-- recording an error changes nothing; recording a success marks the database as local -/
theorem record_error (a : Addr) (e : Err) (s : St) : record a (.error e, s) = (.error e, s) := rfl
theorem record_ok (a : Addr) (out : Out) (s : St) : record a (.ok out, s) = (.ok out, addLocal s a) := rfl

theorem addLocal_of_mem {s : St} {a : Addr} (h : a ∈ s.local) : addLocal s a = s := by
  unfold addLocal
  simp [h]

/-- a local-only `Open` of a database without local data never gets as far as the name test -/
theorem open_valid_localonly {s : St} {addr : String} {a : Addr} (o : Opts) (hp : parse isCid addr = some a)
    (hlo : o.localOnly = true) (hl : haveLocal s a = false) : «open» isCid H s addr o = openValid s a o := by
  have hv : openValid s a o = (.error .notLocal, s) := by
    unfold openValid
    simp [hlo, hl]
  unfold «open»
  rw [hp]
  dsimp only
  cases hf : fetch s.net a.root with
  | none => rw [hv]; rfl
  | some m => simp [hlo, hl, hv, record]

/-- **an address whose path is not the name recorded in the manifest under its root is refused**,
whatever the options (unless the local-only refusal comes first), and nothing changes -/
theorem open_misnamed_refused (s : St) (addr : String) (o : Opts) (a : Addr) (m : Manifest)
    (hp : parse isCid addr = some a) (hf : fetch s.net a.root = some m) (hn : named isCid a m = false)
    (hlo : o.localOnly = false) : «open» isCid H s addr o = (.error .nameMismatch, s) := by
  unfold «open»
  rw [hp]
  dsimp only
  rw [hf]
  simp [hn, hlo]

theorem canon_of_printed {a : Addr} (h : parse isCid (print a) = some a) : canon isCid a = a := by
  unfold canon; rw [h]; rfl

theorem record_state (c a : Addr) (s : St) (o : Opts) :
    (record c (openValid s a o)).2 = s ∨ (record c (openValid s a o)).2 = addLocal s c := by
  have hs := openValid_state s a o
  unfold record
  cases hr : (openValid s a o).1 with
  | error e => left; simp [hr, hs]
  | ok out => right; simp [hr, hs]

/-- **`Open` of a valid address changes the instance in one way only: a database that was opened
successfully is recorded as existing locally** (after the `fix:` commit, finding F53; a refused `Open`
changes nothing) -/
theorem open_state (s : St) (addr : String) (o : Opts) (a : Addr)
    (hp : parse isCid addr = some a) :
    («open» isCid H s addr o).2 = s ∨ («open» isCid H s addr o).2 = addLocal s (canon isCid a) := by
  unfold «open»
  rw [hp]
  dsimp only
  cases hf : fetch s.net a.root with
  | none => exact record_state _ a s o
  | some m =>
    dsimp only
    split
    · left; rfl
    · exact record_state _ a s o

/-- **a local-only `Open` of a database without local data is refused** and changes nothing,
whatever IPFS holds and whatever the other options -/
theorem open_unknown_localonly_refused (s : St) (addr : String) (o : Opts) (a : Addr)
    (hp : parse isCid addr = some a) (hl : a ∉ s.local) (hlo : o.localOnly = true) :
    «open» isCid H s addr o = (.error .notLocal, s) := by
  have : haveLocal s a = false := by
    rw [← Bool.not_eq_true, haveLocal_iff]; exact hl
  rw [open_valid_localonly o hp hlo this]
  unfold openValid
  simp only [hlo, this, Bool.not_false, Bool.and_self, if_true]

/-- an invalid address without `Create` is refused, nothing changes -/
theorem open_invalid_no_create (s : St) (addr : String) (o : Opts)
    (hp : parse isCid addr = none) (hc : o.create = false) :
    «open» isCid H s addr o = (.error .createFalse, s) := by
  unfold «open»
  simp only [hp, hc, Bool.not_false, if_true]

/-- an invalid address with `Create` but no store type is refused, nothing changes -/
theorem open_invalid_no_type (s : St) (addr : String) (o : Opts)
    (hp : parse isCid addr = none) (hc : o.create = true) (ht : o.storeType = "") :
    «open» isCid H s addr o = (.error .noType, s) := by
  unfold «open»
  simp only [hp, hc, ht, Bool.not_true, Bool.false_eq_true, if_false, beq_self_eq_true, if_true]

/-- otherwise it is `Create` with `Overwrite := true`, whatever the caller's `Overwrite` -/
theorem open_invalid_creates (s : St) (addr : String) (o : Opts)
    (hp : parse isCid addr = none) (hc : o.create = true) (ht : o.storeType ≠ "") :
    «open» isCid H s addr o = create isCid H s addr o.storeType { o with overwrite := true } := by
  unfold «open»
  have : (o.storeType == "") = false := by simpa using ht
  simp only [hp, hc, this, Bool.not_true, Bool.false_eq_true, if_false]

/-- hence `Open(name, Create: true)` over an EXISTING local database is not refused (by design:
"open or create"); the `exists` refusal is reachable through `Create` only -/
theorem open_create_over_existing (s : St) (name : String) (o : Opts) (a : Addr)
    (hp : parse isCid name = none) (hc : o.create = true) (ht : o.storeType ≠ "")
    (hd : (determineAddr isCid H s name o.storeType o.acl).1 = .ok a)
    (hcid : isCid (H name o.storeType (effAcl s.self o.acl)) = true)
    (hseg : Seg (H name o.storeType (effAcl s.self o.acl))) :
    («open» isCid H s name o).1 = .ok (a, o.storeType, effAcl s.self o.acl) := by
  rw [open_invalid_creates s name o hp hc ht]
  exact create_overwrite_ok s name o.storeType { o with overwrite := true } a hd hcid hseg rfl

/-- **whatever options are given, a successful `Open` of a valid address hands back the address
itself with the type and write list of the manifest stored under its root** (never
`options.StoreType`, never `options.AccessController`) -/
theorem open_type_and_acl_are_the_recorded_ones (s : St) (addr : String) (o : Opts) (a : Addr)
    (out : Out) (hp : parse isCid addr = some a) (h : («open» isCid H s addr o).1 = .ok out) :
    ∃ m, fetch s.net a.root = some m ∧ out = (a, m.type, m.acl) := by
  have hv : (openValid s a o).1 = .ok out := by
    unfold «open» at h
    rw [hp] at h
    dsimp only at h
    have hrec : ∀ r : Except Err Out × St, (record (canon isCid a) r).1 = .ok out → r.1 = .ok out := by
      intro r hr
      unfold record at hr
      cases h1 : r.1 with
      | error e => simp [h1] at hr
      | ok x => simp [h1] at hr; rw [hr]
    cases hf : fetch s.net a.root with
    | none => rw [hf] at h; exact hrec _ h
    | some m =>
      rw [hf] at h
      dsimp only at h
      split at h
      · cases h
      · exact hrec _ h
  obtain ⟨m, hm, ho, _, _⟩ := openValid_ok hv
  exact ⟨m, hm, ho⟩

/-- the address `DetermineAddress` gives for a name is named by every manifest that records that name -/
theorem named_of_determine {h name : String} {a : Addr} (hc : isCid h = true) (hh : Seg h)
    (hd : determine isCid h name = some a) (m : Manifest) (hm : m.name = name) :
    named isCid a m = true := by
  obtain ⟨_, hp0, hr⟩ := determine_some hd
  have hpp := determine_parse_print hc hh hd
  have hst : staysBelowRoot isCid a = true := by
    unfold staysBelowRoot; rw [hpp]; simp
  have hp : parse isCid (joinAddr h name) = some a := by
    unfold parse; rw [hp0]; simp [hst]
  unfold named
  rw [hm, hr, hp]
  simp

/-- what a successful `Create` leaves behind -/
theorem create_ok_state {s s' : St} {name ty : String} {o : Opts} {out : Out}
    (hc : isCid (recHash H s name ty o) = true) (hs : Seg (recHash H s name ty o))
    (h : create isCid H s name ty o = (.ok out, s')) :
    parse isCid (print out.1) = some out.1 ∧ out.1 ∈ s'.local ∧
    fetch s'.net out.1.root = some ⟨name, out.2.1, out.2.2⟩ ∧ s'.types.contains out.2.1 = true ∧
    s'.types = s.types ∧ (∀ m : Manifest, m.name = name → named isCid out.1 m = true) := by
  obtain ⟨a, hd⟩ := create_ok_determine (out := out) (by rw [h])
  obtain ⟨ht, hn, hdet⟩ := determineAddr_ok_fst hd
  rw [create_of ht hn hdet hc hs] at h
  split at h
  · injection h with h1 _; cases h1
  · injection h with h1 h2
    injection h1 with h1
    subst h1 h2
    refine ⟨parse_print_of_parse0 (determine_parse_print hc hs hdet), (haveLocal_iff _ _).mp (haveLocal_addLocal _ a), ?_, ht, rfl,
      fun m hm => named_of_determine hc hs hdet m hm⟩
    show fetch (putNet s (recHash H s name ty o) ⟨name, ty, recAcl s o⟩).net a.root = _
    rw [determine_root hdet]
    exact fetch_putNet s _ _

/-- **after a successful `Create` returning `(a, ty, wl)`**:
1. on the same instance, `Open (print a)` with ANY options (local-only or not) succeeds with the
   same `(a, ty, wl)` and changes nothing;
2. on another instance `s2` that can fetch the same manifest block and knows the store type, a
   non-local-only `Open` gives `(a, ty, wl)` too;
3. while a local-only `Open` there (no local data) is refused. -/
theorem create_then_open_same (s s' : St) (name ty : String) (o : Opts) (a : Addr) (ty' : String)
    (wl : List String)
    (hc : isCid (recHash H s name ty o) = true) (hs : Seg (recHash H s name ty o))
    (h : create isCid H s name ty o = (.ok (a, ty', wl), s')) :
    (∀ o', «open» isCid H s' (print a) o' = (.ok (a, ty', wl), s')) ∧
    (∀ s2 o', fetch s2.net a.root = fetch s'.net a.root → ty' ∈ s2.types → o'.localOnly = false →
      «open» isCid H s2 (print a) o' = (.ok (a, ty', wl), addLocal s2 a)) ∧
    (∀ s2 o', a ∉ s2.local → o'.localOnly = true →
      «open» isCid H s2 (print a) o' = (.error .notLocal, s2)) := by
  obtain ⟨hpp, hloc, hnet, hty, _, hnm⟩ := create_ok_state hc hs h
  simp only at hpp hloc hnet hty hnm
  refine ⟨fun o' => ?_, fun s2 o' hf ht2 hlo => ?_, fun s2 o' hl hlo => ?_⟩
  · rw [open_valid o' hpp (fun m hm => hnm m (by rw [hnet] at hm; cases hm; rfl)),
      openValid_of (m := ⟨name, ty', wl⟩) (fun _ => hloc) hnet hty, record_ok, canon_of_printed hpp,
      addLocal_of_mem hloc]
  · rw [open_valid o' hpp (fun m hm => hnm m (by rw [hf, hnet] at hm; cases hm; rfl)),
      openValid_of (m := ⟨name, ty', wl⟩) (fun h => by rw [hlo] at h; cases h)
        (hf.trans hnet) (by simpa using ht2), record_ok, canon_of_printed hpp]
  · exact open_unknown_localonly_refused s2 (print a) o' a hpp hl hlo

/-- **after a successful `Open` of a remote database the instance knows it locally** (after the
`fix:` commit, finding F53; it did not — U1): a later local-only `Open` of the same address succeeds
with the same type and write list -/
theorem open_remote_then_localonly_succeeds (s : St) (addr : String) (o o' : Opts) (a : Addr) (out : Out)
    (hp : parse isCid addr = some a) (hn : Named isCid s a) (hca : parse isCid (print a) = some a)
    (h : («open» isCid H s addr o).1 = .ok out) :
    («open» isCid H («open» isCid H s addr o).2 addr o').1 = .ok out := by
  have hnet : ∀ st : St, st.net = s.net → Named isCid st a := fun st hst m hm => hn m (by rw [← hst]; exact hm)
  rw [open_valid o hp hn, canon_of_printed hca] at h ⊢
  cases hr : (openValid s a o).1 with
  | error e => unfold record at h; simp [hr] at h
  | ok x =>
    have hx : x = out := by
      unfold record at h; simp [hr] at h; exact h
    subst hx
    obtain ⟨m, hm, ho, hty, _⟩ := openValid_ok hr
    have hs2 : (record a (openValid s a o)).2 = addLocal s a := by
      unfold record; simp [hr, openValid_state]
    rw [hs2]
    have hnet2 : (addLocal s a).net = s.net := rfl
    rw [open_valid o' hp (hnet _ hnet2), canon_of_printed hca]
    have hloc : a ∈ (addLocal s a).local := (haveLocal_iff _ _).mp (haveLocal_addLocal _ a)
    rw [openValid_of (m := m) (fun _ => hloc) (by rw [hnet2]; exact hm) (by exact hty), record_ok]
    simp [ho]

end Orbit.OC
