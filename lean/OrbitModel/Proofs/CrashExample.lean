import OrbitModel.Proofs.Crash
/-!
# A concrete two-writer history with a merge: `ValidHist` is satisfiable, the cut points behave   (C05)

Writer 0 (this replica) writes `a` then `b`; writer 1 wrote `c` on top of `a` concurrently with `b`.
The replicator fetches `c` and hands the remote log `[a, c]` (heads `[c]`) to
`replicationLoadComplete`.
-/
namespace Orbit.CrashExample

def a : Entry := { hash := 1, logId := 9, time := 1, cid := 0, next := [] }
def b : Entry := { hash := 2, logId := 9, time := 2, cid := 0, next := [1] }
def c : Entry := { hash := 3, logId := 9, time := 2, cid := 1, next := [1] }
def U : List Entry := [a, b, c]
def acl : Acl := { wildcard := true }

theorem hU : HashDet U := by unfold HashDet; decide
theorem hM : ClockMono U := by unfold ClockMono; decide

def L0 : Log := Log.empty 9
def L1 : Log := (append acl.canAppend L0 (fun _ _ => a)).1
def L2 : Log := (append acl.canAppend L1 (fun _ _ => b)).1
def batch : List (OMap × OMap) := [([a, c], [c])]
def L3 : Log := joinAll acl L2 batch

def ops : List SOp :=
  [.write a, .write b, .fetched c, .merged (joinedEntries acl L2 batch) ((sortedHeads L3).map (·.hash))]

def T : List Eff := trace ops

/-- the history is valid and ends in `L3` -/
theorem valid : ValidHist acl U 9 ops L3 := by
  have v1 : ValidHist acl U 9 [.write a] L1 :=
    ValidHist.write (fun _ _ => a) ValidHist.nil (by decide) (fun _ => by decide)
  have v2 : ValidHist acl U 9 [.write a, .write b] L2 :=
    ValidHist.write (fun _ _ => b) v1 (by decide) (fun _ => by decide)
  have v3 : ValidHist acl U 9 [.write a, .write b, .fetched c] L2 := ValidHist.fetched c v2
  have hB : BatchOk U (trace [.write a, .write b, .fetched c]) L2 batch L3 := by
    refine ⟨?_, by decide, by decide⟩
    intro p hp
    have : p = ([a, c], [c]) := by simpa [batch] using hp
    subst this
    exact ⟨⟨by decide, by decide⟩, by decide⟩
  exact ValidHist.merged batch L3 v3 hB rfl (by decide)

/-- the effect trace of the history -/
theorem trace_eq : T =
    [.block 1, .cacheLocal [1], .ack 1,           -- write a
     .block 2, .cacheLocal [2], .ack 2,           -- write b
     .block 3,                                    -- fetched c
     .cacheRemote [3, 2], .replicated [1, 3]] := by decide

/-- crash after the `block` and before the `cacheLocal` of `write b`: the previous state -/
example : T.take 4 = [.block 1, .cacheLocal [1], .ack 1, .block 2] ∧
    recover U (diskOf (T.take 4)) = [1] := by decide

/-- crash after the `cacheLocal` of `write b` (before or after the `ack`): `b` is recovered -/
example : recover U (diskOf (T.take 5)) = [1, 2] ∧ recover U (diskOf (T.take 6)) = [1, 2] := by
  decide

/-- crash after `c` was fetched and before `_remoteHeads` is written: `c` is on disk, not recovered -/
example : 3 ∈ (diskOf (T.take 7)).blocks ∧ recover U (diskOf (T.take 7)) = [1, 2] := by decide

/-- crash after `_remoteHeads` is written (before or after `replicated`): everything -/
example : recover U (diskOf (T.take 8)) = [3, 1, 2] ∧ recover U (diskOf T) = [3, 1, 2] := by decide

/-- the theorem applies to every cut of this history -/
example (n : Nat) :=
  crash_recovers hU hM valid (T.take n) (List.take_prefix n T)

/-- and `_remoteHeads` was written after the blocks of `c`, `b` and their ancestor `a` -/
example : ∀ h ∈ [3, 2], ∀ x, Anc U h x → Eff.block x ∈ (T.take 7) :=
  blocks_before_heads hU hM valid (T.take 7) [.replicated [1, 3]] [3, 2] (.cacheRemote [3, 2])
    (Or.inr rfl) (by decide)

/-! ### A history with a rejected log in the batch: it is skipped, the rest is merged and cached -/

def bad : Entry := { hash := 5, logId := 9, time := 1, cid := 2, next := [], ident := 7 }
def d : Entry := { hash := 4, logId := 9, time := 3, cid := 0, next := [3] }
def U' : List Entry := [a, c, bad, d]
def acl' : Acl := { ids := [0] }

theorem hU' : HashDet U' := by unfold HashDet; decide
theorem hM' : ClockMono U' := by unfold ClockMono; decide

def K1 : Log := (append acl'.canAppend L0 (fun _ _ => a)).1
def batch' : List (OMap × OMap) := [([bad], [bad]), ([a, c], [c])]
/-- `[bad]` is refused and skipped, `[a, c]` is merged -/
def K2 : Log := joinAll acl' K1 batch'
def K3 : Log := (append acl'.canAppend K2 (fun _ _ => d)).1
def ops' : List SOp :=
  [.write a, .fetched c, .fetched bad,
   .merged (joinedEntries acl' K1 batch') ((sortedHeads K2).map (·.hash)), .write d]

theorem batch'_honest : BatchHonest U' K1.id batch' := by
  intro p hp
  have : p = ([bad], [bad]) ∨ p = ([a, c], [c]) := by simpa [batch'] using hp
  rcases this with rfl | rfl
  · exact ⟨⟨by decide, by decide⟩, by decide⟩
  · exact ⟨⟨by decide, by decide⟩, by decide⟩

theorem valid' : ValidHist acl' U' 9 ops' K3 := by
  have v1 : ValidHist acl' U' 9 [.write a] K1 :=
    ValidHist.write (fun _ _ => a) ValidHist.nil (by decide) (fun _ => by decide)
  have v2 : ValidHist acl' U' 9 [.write a, .fetched c, .fetched bad] K1 :=
    ValidHist.fetched bad (ValidHist.fetched c v1)
  have hB : BatchOk U' (trace [.write a, .fetched c, .fetched bad]) K1 batch' K2 :=
    ⟨batch'_honest, by decide, by decide⟩
  have v3 := ValidHist.merged batch' K2 v2 hB rfl (by decide)
  exact ValidHist.write (fun _ _ => d) v3 (by decide) (fun _ => by decide)

/-- the first join is rejected, the second is done; only the entries of the second are reported;
`_remoteHeads` is written although a log was rejected, so a crash right after it recovers `c` -/
example : (join acl'.canAppend K1 [bad] [bad] K1.id matches .error .denied) = true ∧
    K2.entries.map (·.hash) = [1, 3] ∧
    trace ops' = [.block 1, .cacheLocal [1], .ack 1, .block 3, .block 5,
                  .cacheRemote [3], .replicated [1, 3],
                  .block 4, .cacheLocal [4], .ack 4] ∧
    recover U' (diskOf ((trace ops').take 5)) = [1] ∧
    recover U' (diskOf ((trace ops').take 6)) = [3, 1] ∧
    recover U' (diskOf (trace ops')) = [1, 3, 4] := by decide

example (n : Nat) :=
  crash_recovers hU' hM' valid' ((trace ops').take n) (List.take_prefix n _)

/-! ### Why `BatchOk.parents` is assumed: an accepted child whose parent is rejected

`e` (authorised) names `bad'` (unauthorised) as its parent. When the two arrive as separate logs
(the replicator buffers one log per fetched entry), `[bad']` is skipped and `e` is merged with a
dangling `next` link: the log is not closed under `next`, `BatchOk.parents` fails. The blocks of both
are on disk, so following the links from the cached head reaches `bad'`, which the log never held:
the recovered set is not a part of the pre-crash log (conclusion (iv) of `crash_recovers` fails), and
`Load` itself, which joins everything reachable from the head as one log, has that join refused and
loses `e`, although `e` was reported as replicated. -/

def bad' : Entry := { hash := 5, logId := 9, time := 2, cid := 2, next := [1], ident := 7 }
def e : Entry := { hash := 6, logId := 9, time := 3, cid := 1, next := [5] }
def U'' : List Entry := [a, bad', e]
def batch'' : List (OMap × OMap) := [([e], [e]), ([bad'], [bad'])]
def M2 : Log := joinAll acl' K1 batch''
def T'' : List Eff := trace [.write a, .fetched e, .fetched bad',
  .merged (joinedEntries acl' K1 batch'') ((sortedHeads M2).map (·.hash))]

theorem rejected_parent_merged :
    HashDet U'' ∧ ClockMono U'' ∧ M2.entries = [a, e] ∧ joinedEntries acl' K1 batch'' = [e] ∧
    ¬ Closed M2 ∧
    ¬ (∀ p ∈ batch'', ∀ x ∈ p.1, x ∈ M2.entries → ∀ n ∈ x.next, has M2.entries n = true) := by
  unfold HashDet ClockMono Closed; decide

theorem rejected_parent_recovered :
    T'' = [.block 1, .cacheLocal [1], .ack 1, .block 6, .block 5, .cacheRemote [6, 1], .replicated [6]] ∧
    recover U'' (diskOf T'') = [5, 6, 1] ∧ has M2.entries 5 = false := by decide

/-- `Load` after that crash: the log fetched from the cached head `e` contains `bad'`, its join is
refused and ignored; `e` is not loaded -/
theorem rejected_parent_load :
    ((loadHeads acl' (fun h => if h = 6 then [e, bad', a] else [a]) (-1) (Log.empty 9) [1, 6]).map
      (·.entries) |>.toOption) = some [a] := by decide

/-- when the rejected parent comes in the *same* log as the child, the whole log is rejected: nothing
is merged, nothing is reported, the log stays closed (`joinAll_closed`) -/
theorem rejected_parent_same_log :
    (joinAll acl' K1 [([e, bad'], [e])]).entries = K1.entries ∧ joinedEntries acl' K1 [([e, bad'], [e])] = [] := by
  decide

