import OrbitModel.Proofs.Crash
/-!
# A concrete two-writer history with a merge: `ValidHist` is satisfiable, the cut points behave   (C05)

Writer 0 (this replica) writes `a` then `b`; writer 1 wrote `c` on top of `a` concurrently with `b`.
The replicator fetches `c` and hands the remote log `[a, c]` (heads `[c]`) to
`replicationLoadComplete`.
-/
namespace Orbit.CrashExample

def a : Entry := { hash := 1, logId := 9, time := 1, cid := 0, next := [] }
def b : Entry := { hash := 2, logId := 9, time := 2, cid := 0, next := [1] }
def c : Entry := { hash := 3, logId := 9, time := 2, cid := 1, next := [1] }
def U : List Entry := [a, b, c]
def acl : Acl := { wildcard := true }

theorem hU : HashDet U := by unfold HashDet; decide
theorem hM : ClockMono U := by unfold ClockMono; decide

def L0 : Log := Log.empty 9
def L1 : Log := (append acl.canAppend L0 (fun _ _ => a)).1
def L2 : Log := (append acl.canAppend L1 (fun _ _ => b)).1
def batch : List (OMap × OMap) := [([a, c], [c])]
def L3 : Log := (joinAllPinned acl L2 batch).1

def ops : List SOp :=
  [.write a, .write b, .fetched c, .merged (batch.flatMap (·.1)) ((sortedHeads L3).map (·.hash))]

def T : List Eff := trace ops

/-- the history is valid and ends in `L3` -/
theorem valid : ValidHist acl U 9 ops L3 := by
  have v1 : ValidHist acl U 9 [.write a] L1 :=
    ValidHist.write (fun _ _ => a) ValidHist.nil (by decide) (fun _ => by decide)
  have v2 : ValidHist acl U 9 [.write a, .write b] L2 :=
    ValidHist.write (fun _ _ => b) v1 (by decide) (fun _ => by decide)
  have v3 : ValidHist acl U 9 [.write a, .write b, .fetched c] L2 := ValidHist.fetched c v2
  have hB : BatchOk U (trace [.write a, .write b, .fetched c]) L2 batch L3 := by
    refine ⟨?_, by decide, by decide⟩
    intro p hp
    have : p = ([a, c], [c]) := by simpa [batch] using hp
    subst this
    exact ⟨⟨by decide, by decide⟩, by decide⟩
  exact ValidHist.merged batch L3 v3 hB (Prod.ext rfl (by decide)) (by decide)

/-- the effect trace of the history -/
theorem trace_eq : T =
    [.block 1, .cacheLocal [1], .ack 1,           -- write a
     .block 2, .cacheLocal [2], .ack 2,           -- write b
     .block 3,                                    -- fetched c
     .cacheRemote [3, 2], .replicated [1, 3]] := by decide

/-- crash after the `block` and before the `cacheLocal` of `write b`: the previous state -/
example : T.take 4 = [.block 1, .cacheLocal [1], .ack 1, .block 2] ∧
    recover U (diskOf (T.take 4)) = [1] := by decide

/-- crash after the `cacheLocal` of `write b` (before or after the `ack`): `b` is recovered -/
example : recover U (diskOf (T.take 5)) = [1, 2] ∧ recover U (diskOf (T.take 6)) = [1, 2] := by
  decide

/-- crash after `c` was fetched and before `_remoteHeads` is written: `c` is on disk, not recovered -/
example : 3 ∈ (diskOf (T.take 7)).blocks ∧ recover U (diskOf (T.take 7)) = [1, 2] := by decide

/-- crash after `_remoteHeads` is written (before or after `replicated`): everything -/
example : recover U (diskOf (T.take 8)) = [3, 1, 2] ∧ recover U (diskOf T) = [3, 1, 2] := by decide

/-- the theorem applies to every cut of this history -/
example (n : Nat) :=
  crash_recovers hU hM valid (T.take n) (List.take_prefix n T)

/-- and `_remoteHeads` was written after the blocks of `c`, `b` and their ancestor `a` -/
example : ∀ h ∈ [3, 2], ∀ x, Anc U h x → Eff.block x ∈ (T.take 7) :=
  blocks_before_heads hU hM valid (T.take 7) [.replicated [1, 3]] [3, 2] (.cacheRemote [3, 2])
    (Or.inr rfl) (by decide)

/-- why `BatchOk.parents` is assumed: a merged entry whose parent's block is missing is recovered
without its parent -/
example : recover U (diskOf [.block 3, .cacheRemote [3], .replicated [3]]) = [3] ∧ 1 ∈ c.next := by
  decide

/-! ### A history with an aborted batch: the log outgrows the cache, the property still holds -/

def bad : Entry := { hash := 5, logId := 9, time := 1, cid := 2, next := [], ident := 7 }
def d : Entry := { hash := 4, logId := 9, time := 3, cid := 0, next := [3] }
def U' : List Entry := [a, c, bad, d]
def acl' : Acl := { ids := [0] }

theorem hU' : HashDet U' := by unfold HashDet; decide
theorem hM' : ClockMono U' := by unfold ClockMono; decide

def K1 : Log := (append acl'.canAppend L0 (fun _ _ => a)).1
def batch' : List (OMap × OMap) := [([a, c], [c]), ([bad], [bad])]
/-- `[a, c]` is merged, `[bad]` is refused: `replicationLoadComplete` returns early -/
def K2 : Log := (joinAllPinned acl' K1 batch').1
def K3 : Log := (append acl'.canAppend K2 (fun _ _ => d)).1
def ops' : List SOp := [.write a, .fetched c, .fetched bad, .write d]

theorem valid' : ValidHist acl' U' 9 ops' K3 := by
  have v1 : ValidHist acl' U' 9 [.write a] K1 :=
    ValidHist.write (fun _ _ => a) ValidHist.nil (by decide) (fun _ => by decide)
  have v2 : ValidHist acl' U' 9 [.write a, .fetched c, .fetched bad] K1 :=
    ValidHist.fetched bad (ValidHist.fetched c v1)
  have hB : BatchOk U' (trace [.write a, .fetched c, .fetched bad]) K1 batch' K2 := by
    refine ⟨?_, by decide, by decide⟩
    intro p hp
    have : p = ([a, c], [c]) ∨ p = ([bad], [bad]) := by simpa [batch'] using hp
    rcases this with rfl | rfl
    · exact ⟨⟨by decide, by decide⟩, by decide⟩
    · exact ⟨⟨by decide, by decide⟩, by decide⟩
  have v3 : ValidHist acl' U' 9 [.write a, .fetched c, .fetched bad] K2 :=
    ValidHist.aborted batch' K2 v2 hB (Prod.ext rfl (by decide))
  exact ValidHist.write (fun _ _ => d) v3 (by decide) (fun _ => by decide)

/-- after the abort the log holds `c`, the cache names only `a`; a crash there recovers `[a]`
(nothing about `c` was reported); the next write names `c` as its parent and brings it back -/
example : K2.entries.map (·.hash) = [1, 3] ∧
    trace ops' = [.block 1, .cacheLocal [1], .ack 1, .block 3, .block 5,
                  .block 4, .cacheLocal [4], .ack 4] ∧
    recover U' (diskOf ((trace ops').take 5)) = [1] ∧
    recover U' (diskOf ((trace ops').take 6)) = [1] ∧
    recover U' (diskOf (trace ops')) = [1, 3, 4] := by decide

example (n : Nat) :=
  crash_recovers hU' hM' valid' ((trace ops').take n) (List.take_prefix n _)

end Orbit.CrashExample
