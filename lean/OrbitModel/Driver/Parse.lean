import OrbitModel.Model.Store
import OrbitModel.Spec.Replay
/-!
# Line-protocol parsing helpers for the driver (core-only)
-/
namespace Orbit.Driver

def hexVal (c : Char) : Nat :=
  if '0' ≤ c ∧ c ≤ '9' then c.toNat - '0'.toNat
  else if 'a' ≤ c ∧ c ≤ 'f' then c.toNat - 'a'.toNat + 10
  else if 'A' ≤ c ∧ c ≤ 'F' then c.toNat - 'A'.toNat + 10 else 0

def unhexChars : List Char → List Char
  | a :: b :: rest => Char.ofNat (hexVal a * 16 + hexVal b) :: unhexChars rest
  | _ => []

/-- decode a hex field byte-per-char (`-` = empty) -/
def unhex (s : String) : String := if s == "-" then "" else String.ofList (unhexChars s.toList)

def fields (line : String) : List String := (line.splitOn " ").filter (· ≠ "")

/-- `k=v` lookup among tokens -/
def arg? (toks : List String) (k : String) : Option String :=
  let pre := k ++ "="
  (toks.find? (·.startsWith pre)).map (fun t => (t.drop pre.length).toString)

def arg (toks : List String) (k : String) : String := (arg? toks k).getD ""

def commaList (s : String) : List String := if s == "-" || s == "" then [] else s.splitOn ","

/-- `e12` ↦ 12 ; unknown names (x…, nil) ↦ 0 -/
def entryNum (s : String) : Nat :=
  if s.startsWith "e" then ((((s.drop 1).toString.replace "!" "").replace "~" "").toNat?).getD 0 else 0

def namesToNums (s : String) : List Nat := (commaList s).map entryNum

def parseInt (s : String) : Int := (s.toInt?).getD 0

def parseKVs (s : String) : List (String × String) :=
  (commaList s).map (fun kv => match kv.splitOn ":" with
    | [k, v] => (unhex k, v)
    | _ => ("?", "?"))

def parseOp (toks : List String) : Op :=
  match arg toks "op" with
  | "PUT" => .put (unhex (arg toks "k")) (arg toks "v")
  | "DEL" => .del (unhex (arg toks "k"))
  | "ADD" => .add (arg toks "v")
  | "PUTALL" => .putAll (parseKVs (arg toks "docs"))
  | _ => .other

def natOr (s : String) (d : Nat) : Nat := (s.toNat?).getD d

/-- peers are named by small numbers; `-1` (unknown) maps to 999 -/
def peerNum (s : String) : Nat := if s.startsWith "-" then 999 else natOr s 999

def parseEntry (toks : List String) (hash : Nat) : Entry :=
  { hash := hash
    logId := if arg toks "log" == "db" then 1 else 2
    time := natOr (arg toks "t") 0
    cid := peerNum (arg toks "cid")
    next := namesToNums (arg toks "next")
    refs := namesToNums (arg toks "refs")
    op := parseOp toks
    ident := peerNum (arg toks "ident")
    key := peerNum (arg toks "key")
    identOk := (match arg? toks "ipk" with | some x => peerNum x == peerNum (arg toks "ident") | none => true)
                && (arg? toks "isig").getD "1" == "1"
    sigOk := (arg? toks "sig").getD "1" == "1"
    hashOk := (arg? toks "hashok").getD "1" == "1" }

def showNums (l : List Nat) : String :=
  if l.isEmpty then "-" else ",".intercalate (l.map (fun n => "e" ++ toString n))

def showKV (m : KV) : String :=
  let c := KV.canon m
  if c.isEmpty then "-" else ",".intercalate (c.map (fun p => p.1 ++ ":" ++ p.2))

end Orbit.Driver
