import OrbitModel.Driver.World
import OrbitModel.Model.Codec
/-!
# Driver: transport adapter lines (C20, C12 frame part)
-/
namespace Orbit.Driver
open Orbit.Codec

def hexBytes (s : String) : List Nat :=
  let rec go : List Char → List Nat
    | a :: b :: rest => (hexVal a * 16 + hexVal b) :: go rest
    | _ => []
  if s == "-" then [] else go s.toList

def showHex (bs : List Nat) : String :=
  if bs.isEmpty then "-" else
  String.ofList (bs.flatMap (fun b => [Nat.toDigits 16 (b / 16), Nat.toDigits 16 (b % 16)].flatten))

def parseSnaps (s : String) : List (List Nat) :=
  (s.splitOn ";").map (fun x => (commaList x).map (fun t => natOr t 0))

def evStr : PeerEv → String
  | .join p => s!"join:{p}"
  | .leave p => s!"leave:{p}"

/-- canonical form: every maximal run of leaves sorted (they come out of a Go map) -/
def canonEvs (evs : List PeerEv) : List PeerEv :=
  let rec go (fuel : Nat) (l : List PeerEv) : List PeerEv :=
    match fuel with
    | 0 => l
    | f+1 =>
      match l with
      | [] => []
      | .join p :: rest => .join p :: go f rest
      | .leave p :: rest =>
        let run := (PeerEv.leave p :: rest).takeWhile (fun e => match e with | .leave _ => true | _ => false)
        let after := (PeerEv.leave p :: rest).dropWhile (fun e => match e with | .leave _ => true | _ => false)
        let ps := sortNums (run.map (fun e => match e with | .leave q => q | .join q => q))
        ps.map .leave ++ go f after
  go (evs.length + 1) evs

def parseEvs (s : String) : List PeerEv :=
  (commaList s).filterMap (fun t => match t.splitOn ":" with
    | ["join", p] => some (.join (natOr p 0))
    | ["leave", p] => some (.leave (natOr p 0))
    | _ => none)

def World.onTEventsAt (w : World) (toks : List String) (k : Nat) : World :=
  let snaps := parseSnaps (w.pending.getD k "")
  let impl := parseEvs (toks.getD 1 "-")
  let model := canonEvs (watchPeers [] snaps)
  let w := if model != impl then
      w.fail "corr" "tevents" s!"snapshots {w.pending.getD k ""}: model {",".intercalate (model.map evStr)}, implementation {toks.getD 1 "-"}" else w
  -- C20: replaying the reported joins/leaves gives the last snapshot, which is also what Peers() reports
  let replay := sortNums (impl.foldl applyEv [])
  let last := sortNums ((snaps.getLast?.getD []).eraseDups)
  let members := sortNums ((commaList (arg toks "members")).map (fun t => natOr t 0))
  let w := if replay != last then
      w.fail "C20" "membership" s!"watcher {k}, snapshots {w.pending.getD k ""}: reported changes replay to {replay}, last snapshot is {last}" else w
  if members != last then w.fail "C20" "members" s!"Peers() reports {members}, last snapshot is {last}" else w

/-- the first watcher of a topic -/
def World.onTEvents (w : World) (toks : List String) : World := w.onTEventsAt toks 1

/-- a later watcher of the same topic of the same adapter: it follows the membership on its own, from
nothing, exactly like the first one -/
def World.onTEvents2 (w : World) (toks : List String) : World := w.onTEventsAt toks 2

def World.onTDelivered (w : World) (toks : List String) : World :=
  let msgs : List (Nat × List Nat) := (commaList (w.pending.getD 1 "-")).filterMap (fun m => match m.splitOn ":" with
    | [f, p] => some (natOr f 0, hexBytes p) | _ => none)
  let want := (filterSelf 0 msgs).map (fun p => if p.isEmpty then "." else showHex p)
  let got := commaList (toks.getD 1 "-")
  if want != got then w.fail "C20" "messages" s!"remote payloads {want}, delivered {got}" else w

def World.onTOne (w : World) (toks : List String) : World :=
  let a := natOr (w.pending.getD 1 "") 0
  let b := natOr (w.pending.getD 2 "") 0
  let pay (s : String) : List String := (commaList s).map (fun x => (x.drop 1).toString)
  let pa := pay (w.pending.getD 3 "-")
  let pb := pay (w.pending.getD 4 "-")
  let w := if arg toks "connect" != "ok/ok" then w.fail "C20" "connect" s!"pairwise channel connect {arg toks "connect"}" else w
  -- (a third peer's publication, when there is one, goes to the same — single — pairwise topic)
  let hasThird := w.pending.any (fun t => t.startsWith "third=")
  let wantTopics := if pa.isEmpty && pb.isEmpty && !hasThird then 0 else 1
  let w := if natOr (arg toks "topics") 99 != wantTopics then
      w.fail "C20" "channel" s!"the two ends published on {arg toks "topics"} distinct channel names" else w
  let wantAB := pa.map (fun p => s!"{a}:{if p == "" || p == "-" then "." else p}")
  let wantBA := pb.map (fun p => s!"{b}:{if p == "" || p == "-" then "." else p}")
  let w := if commaList (arg toks "atob") != wantAB then
      w.fail "C20" "delivery" s!"{a}→{b}: sent {wantAB}, delivered {arg toks "atob"}" else w
  if commaList (arg toks "btoa") != wantBA then
      w.fail "C20" "delivery" s!"{b}→{a}: sent {wantBA}, delivered {arg toks "btoa"}" else w

def World.onTFrame (w : World) (toks : List String) : World :=
  let a := w.pending.getD 1 ""
  let raw : List Nat :=
    if a.startsWith "send:" then writeFrame (hexBytes (a.drop 5).toString)
    else if a.startsWith "len:" then
      match ((a.drop 4).toString).splitOn ":" with
      | [n] => encodeUvarint (natOr n 0)
      | [n, k] => encodeUvarint (natOr n 0) ++ List.replicate (natOr k 0) 0xab
      | _ => []
    else hexBytes a
  let model : String := match readFrame raw with
    | none => "none"
    | some p =>
      let sum := (p.zipIdx.foldl (fun acc (b, k) => (acc + (k % 251 + 1) * b) % 1000000007) 0)
      s!"from=2 len={p.length} head={showHex (p.take 16)} tail={showHex (p.drop (p.length - min p.length 16))} sum={sum}"
  let res := toks.getD 1 ""
  let impl := " ".intercalate (toks.drop 2)
  let w := if res != "ok" then w.fail "C12" "frame" s!"direct-channel stream handler panicked on frame {a}" else w
  if impl != model then w.fail "C20" "frame" s!"frame {a}: model {model}, implementation {impl}" else w

def World.stepAll (w : World) (line : String) : World :=
  let toks := fields line
  match toks.headD "" with
  | "tevents" => { w with lineNo := w.lineNo + 1 }.onTEvents toks
  | "tevents2" => { w with lineNo := w.lineNo + 1 }.onTEvents2 toks
  | "tdelivered" => { w with lineNo := w.lineNo + 1 }.onTDelivered toks
  | "tone" => { w with lineNo := w.lineNo + 1 }.onTOne toks
  | "tframe" => { w with lineNo := w.lineNo + 1 }.onTFrame toks
  | _ => w.step line

end Orbit.Driver
