import OrbitModel.Model.Replicator
/-!
# Driver: step-by-step replay of the real replicator

The harness records, from hooks INSIDE the replicator's lock sections, every step it takes (`rev` lines:
load, acq, acqfail, fetched, done, failed, deliver, cancel). Each is replayed as the corresponding
action of `Model/Replicator.lean`; the worker is found by the item it is bound to. A step the model
cannot take, or bookkeeping that differs at rest (`stats` lines), is a correspondence failure.
-/
namespace Orbit.Driver
open Orbit.Repl

/-- find the worker bound to `h` with program counter `pc` -/
def findWorker (s : St) (h : Nat) (pc : PC) : Option Nat :=
  s.workers.findIdx? (fun w => w.item == h && w.pc == pc)

/-- take a step whose decision was made while the request was alive although the cancellation is
already recorded (the hook sits after the point where the Go code looked at the context) -/
def stepLive (net : Nat → Info) (s : St) (a : Act) (ctx : Nat) : St :=
  let c := s.cancelled
  let s' := step net { s with cancelled := c.filter (· != ctx) } a
  { s' with cancelled := c }

inductive RevOutcome where
  | ok (s : St)
  | bad (s : St) (msg : String)

def showWorkers (s : St) : String :=
  ",".intercalate (s.workers.map (fun w => s!"e{w.item}:{match w.pc with | .waitSlot => "wait" | .fetching => "fetch" | .finishing => "fin"}"))

/-- replay one recorded step; `h` is the item's hash (0 when the step has none) -/
def revStep (net : Nat → Info) (s : St) (kind : String) (ctx : Nat) (h : Nat) (heads : List Nat) : RevOutcome :=
  match kind with
  | "load" => .ok (step net s (.load ctx heads))
  | "cancel" => .ok (step net s (.cancel ctx))
  | "deliver" =>
    if s.pending.isEmpty then .bad s "the store handled a LoadEnd, the model has none pending" else .ok (step net s .deliver)
  | "acq" =>
    match findWorker s h .waitSlot with
    | none => .bad s s!"a worker acquired a slot for e{h}; the model has no worker waiting for it (workers: {showWorkers s})"
    | some i =>
      let c := ((s.workers[i]?).map (·.ctx)).getD 0
      if s.sem == 0 then .bad s s!"a worker acquired a slot for e{h} although the model has none free" else
      .ok (stepLive net s (.acquire i) c)
  | "acqfail" =>
    match findWorker s h .waitSlot with
    | none => .bad s s!"a worker failed to get a slot for e{h}; the model has no worker waiting for it (workers: {showWorkers s})"
    | some i =>
      let c := ((s.workers[i]?).map (·.ctx)).getD 0
      if !s.cancelled.contains c then .bad s s!"a worker gave up waiting for a slot for e{h} although its request is alive in the model"
      else .ok (step net s (.acquire i))
  | "fetched" =>
    match findWorker s h .fetching with
    | none => .bad s s!"e{h} was fetched and its parents queued; the model has no worker fetching it (workers: {showWorkers s})"
    | some i =>
      let c := ((s.workers[i]?).map (·.ctx)).getD 0
      .ok (stepLive net s (.fetched i) c)
  | "done" =>
    match findWorker s h .finishing with
    | none => .bad s s!"e{h} was marked done; the model has no worker finishing it (workers: {showWorkers s})"
    | some i => .ok (step net s (.finish i))
  | "failed" =>
    match findWorker s h .fetching with
    | none => .bad s s!"the fetch of e{h} failed; the model has no worker fetching it (workers: {showWorkers s})"
    | some i => .ok (step net s (.fetchFail i))
  | k => .bad s s!"unknown replicator step {k}"

/-- the bookkeeping the harness prints at rest, from the model -/
def statsOf (s : St) : List (String × Nat) :=
  let cnt (t : TS) : Nat := (s.tasks.filter (fun p => p.2 == t)).length
  [("added", cnt .added), ("fetching", cnt .fetching), ("fetched", cnt .fetched), ("queue", s.queue.length),
   ("buffer", s.buffer.length), ("inprogress", s.inProgress), ("failed", s.failed.eraseDups.length), ("free", s.sem)]

end Orbit.Driver
