import OrbitModel.Driver.Transport
import OrbitModel.Model.Path
import OrbitModel.Model.Lifecycle
import OrbitModel.Model.OpenCreate
import OrbitModel.Model.Params
/-!
# Driver: address lines (C14) and snapshot lines (C13)
-/
namespace Orbit.Driver
open Orbit.Path

def isCidTok (s : String) : Bool := s.length ≥ 3 && s.startsWith "@" && s.endsWith "@"

structure AddrWorld where
  roots   : List (String × String) := []            -- input key ↦ root name
  local_  : List (Nat × String) := []               -- (peer, root) with a local manifest marker
  info    : List (String × String × String) := []   -- root ↦ (type, write list)
  last    : Option (String × String) := none        -- root, path of the last created database
  /-- the `Create`/`Open` model (`Model/OpenCreate.lean`): per-peer local databases, shared manifests -/
  ocLocal : List (Nat × List Addr) := []
  ocNet   : List (String × OC.Manifest) := []
  /-- manifest hash observed for (name|type|write list): the `H` the model is run with -/
  ocHash  : List (String × String) := []
deriving Inhabited

def ocKey (name ty : String) (acl : List String) : String := name ++ "|" ++ ty ++ "|" ++ ",".intercalate acl

def AddrWorld.H (aw : AddrWorld) (name ty : String) (acl : List String) : String :=
  match aw.ocHash.find? (fun (x : String × String) => x.1 == ocKey name ty acl) with
  | some x => x.2
  | none => "@unknown@"

def AddrWorld.ocState (aw : AddrWorld) (p : Nat) : OC.St :=
  { self := toString p, types := ["keyvalue", "docstore", "eventlog"],
    «local» := match aw.ocLocal.find? (fun (x : Nat × List Addr) => x.1 == p) with | some x => x.2 | none => [],
    net := aw.ocNet }

def AddrWorld.ocPut (aw : AddrWorld) (p : Nat) (s : OC.St) : AddrWorld :=
  { aw with ocLocal := (p, s.local) :: aw.ocLocal.filter (fun (x : Nat × List Addr) => x.1 != p), ocNet := s.net }

def aclList (acl : String) : List String :=
  if acl == "default" then [] else if acl == "*" then ["*"] else commaList acl

def sortedAcl (l : List String) : String :=
  if l == ["*"] then "*" else ",".intercalate ((sortNums (l.map (fun t => natOr t 0))).map toString)

def storeType (k : String) : String :=
  match k with | "kv" => "keyvalue" | "doc" => "docstore" | "log" => "eventlog" | x => x

def writeList (acl : String) (p : Nat) : String :=
  if acl == "default" then toString p else if acl == "*" then "*"
  else ",".intercalate ((sortNums ((commaList acl).map (fun t => natOr t 0))).map toString)

def addrKey (name kind acl : String) (p : Nat) : String :=
  name ++ "|" ++ kind ++ "|" ++ (if acl == "default" then toString p else acl)

/-- model of DetermineAddress on placeholder names: `some path` or `none` -/
def modelDetermine (name : String) : Option String := (determine isCidTok "@H@" name).map (·.path)

def onAddr (w : World) (aw : AddrWorld) (toks : List String) : World × AddrWorld :=
  let p := peerNum (toks.getD 1 "")
  let name := unhex (w.pending.getD 2 "")
  let kind := w.pending.getD 3 ""
  let acl := w.pending.getD 4 ""
  let key := addrKey name kind acl p
  let model := modelDetermine name
  if toks.getD 2 "" == "err" then
    (if model.isSome then w.fail "corr" "addr" s!"name '{name}': model accepts (path {model.getD ""}), implementation refuses" else w, aw)
  else
    let root := arg toks "root"
    let path := unhex (arg toks "path")
    let str := unhex (arg toks "str")
    let w := match model with
      | none => w.fail "C14" "root" s!"name '{name}' must be refused (it does not stay below its own root, or is itself an address) but yields root {root} path '{path}'"
      | some mp =>
        let w := if mp != path then w.fail "corr" "addr" s!"name '{name}': model path '{mp}', implementation '{path}'" else w
        if str != joinAddr s!"@{root}@" path then w.fail "C14" "print" s!"address prints as '{str}', expected '{joinAddr s!"@{root}@" path}'" else w
    -- deterministic: same inputs ⇒ same root (on any peer); injective: different inputs ⇒ different roots
    match aw.roots.find? (·.1 == key) with
    | some (_, r) => (if r != root then w.fail "C14" "deterministic" s!"inputs {key} gave root {r} before and {root} now" else w, aw)
    | none =>
      let w := match aw.roots.find? (·.2 == root) with
        | some (k, _) => if model.isSome then w.fail "C14" "injective" s!"inputs {key} and {k} give the same root {root}" else w
        | none => w
      (w, { aw with roots := (key, root) :: aw.roots })

def onCreated (w : World) (aw : AddrWorld) (toks : List String) : World × AddrWorld :=
  let p := peerNum (toks.getD 1 "")
  let name := unhex (w.pending.getD 2 "")
  let kind := w.pending.getD 3 ""
  let acl := w.pending.getD 4 ""
  let overwrite := w.pending.getD 5 "" == "overwrite"
  let key := addrKey name kind acl p
  let model := modelDetermine name
  let knownRoot := (aw.roots.find? (·.1 == key)).map (·.2)
  let haveLocal := match knownRoot with | some r => aw.local_.contains (p, r) | none => false
  let expectOk := model.isSome && (!haveLocal || overwrite)
  -- the Create/Open model, run with the manifest hash the implementation reports (or has reported)
  let st0 := aw.ocState p
  let wl := OC.effAcl st0.self (aclList acl)
  let aw := if toks.getD 2 "" != "err" && !(aw.ocHash.any (fun (x : String × String) => x.1 == ocKey name (storeType kind) wl)) then
      { aw with ocHash := (ocKey name (storeType kind) wl, s!"@{arg toks "root"}@") :: aw.ocHash } else aw
  let (mres, st1) := OC.createDB isCidTok aw.H st0 name (storeType kind) (aclList acl) overwrite
  let aw := aw.ocPut p st1
  let w := match mres with
    | .ok (a, ty, mwl) =>
      if toks.getD 2 "" == "err" then w.fail "corr" "create" s!"Create('{name}') by peer {p}: model succeeds ({a.root}/{a.path}), implementation refuses"
      else
        let w := if a.root != s!"@{arg toks "root"}@" || a.path != unhex (arg toks "path") then
            w.fail "corr" "create" s!"Create('{name}'): model address {a.root}/{a.path}, implementation {arg toks "root"}/{unhex (arg toks "path")}" else w
        if ty != arg toks "type" || sortedAcl mwl != arg toks "write" then
          w.fail "corr" "create" s!"Create('{name}'): model store {ty} writable by {sortedAcl mwl}, implementation {arg toks "type"} writable by {arg toks "write"}" else w
    | .error e =>
      -- (a hash never observed = a name the implementation has always refused: nothing to compare)
      if toks.getD 2 "" != "err" then w.fail "corr" "create" s!"Create('{name}') by peer {p}: model refuses ({repr e}), implementation succeeds" else w
  if toks.getD 2 "" == "err" then
    (if expectOk then w.fail "C14" "create" s!"Create('{name}') by peer {p} refused although the name is valid and no local database exists (or overwrite was set)" else w, aw)
  else
    let root := arg toks "root"
    let w := if !model.isSome then w.fail "C14" "create" s!"Create('{name}') must be refused but returned root {root} type {arg toks "type"}"
             else if haveLocal && !overwrite then w.fail "C14" "create" s!"Create('{name}') over an existing local database succeeded without overwrite" else w
    let w := if arg toks "type" != storeType kind then w.fail "C14" "type" s!"Create('{name}', {kind}) returned a store of type {arg toks "type"}" else w
    let w := if arg toks "write" != writeList acl p then w.fail "C14" "acl" s!"Create('{name}') with write list {acl} returned a store writable by {arg toks "write"}" else w
    let w := match knownRoot with
      | some r => if r != root then w.fail "C14" "deterministic" s!"Create('{name}') has root {root}, DetermineAddress said {r}" else w
      | none => w
    (w, { aw with local_ := (p, root) :: aw.local_, info := (root, storeType kind, writeList acl p) :: aw.info,
                  last := some (root, unhex (arg toks "path")), roots := if knownRoot.isSome then aw.roots else (key, root) :: aw.roots })

def onOpened (w : World) (aw : AddrWorld) (toks : List String) : World × AddrWorld :=
  let q := peerNum (toks.getD 1 "")
  let localonly := w.pending.getD 2 "" == "localonly"
  match aw.last with
  | none => (w, aw)
  | some (root, path) =>
    -- an instance that cannot resolve the access controller (type not registered here, write-list block
    -- not retrievable) must refuse: a store under any other write list admits writers the database never had
    if (w.pending.getLast?.getD "").startsWith "blind=" then
      (if toks.getD 2 "" == "err" then w else
        (w.fail "C03" "resolve" s!"peer {q} opened {root}/{path} although its access controller could not be resolved ({w.pending.getLast?.getD ""}); the store's write list is {arg toks "write"}").fail "C14" "acl" s!"peer {q} opened {root}/{path} although its access controller could not be resolved: write list {arg toks "write"}", aw)
    else
    let haveLocal := aw.local_.contains (q, root)
    let expectOk := !localonly || haveLocal
    let st0 := aw.ocState q
    let (mres, st1) := OC.openDB isCidTok aw.H st0 (joinAddr s!"@{root}@" path) localonly false "" false
    let aw := aw.ocPut q st1
    let w := match mres with
      | .ok (a, ty, mwl) =>
        if toks.getD 2 "" == "err" then w.fail "corr" "open" s!"peer {q}: model opens {root}/{path}, implementation refuses"
        else if a.root != s!"@{arg toks "root"}@" || ty != arg toks "type" || sortedAcl mwl != arg toks "write" then
          w.fail "corr" "open" s!"peer {q}: model opens {a.root} as {ty} writable by {sortedAcl mwl}, implementation {arg toks "root"} as {arg toks "type"} writable by {arg toks "write"}"
        else w
      | .error e =>
        if toks.getD 2 "" != "err" then w.fail "corr" "open" s!"peer {q}: model refuses to open {root}/{path} ({repr e}), implementation succeeds" else w
    if toks.getD 2 "" == "err" then
      (if expectOk then w.fail "C14" "open" s!"peer {q} could not open {root}/{path}" else w, aw)
    else
      let w := if !expectOk then w.fail "C14" "open" s!"peer {q} opened {root} local-only although it has no local copy" else w
      let w := if arg toks "root" != root || unhex (arg toks "path") != path then
          w.fail "C14" "open" s!"peer {q} opened {arg toks "root"}/{unhex (arg toks "path")} instead of {root}/{path}" else w
      let w := match aw.info.find? (·.1 == root) with
        | some (_, ty, wl) =>
          let w := if arg toks "type" != ty then w.fail "C14" "type" s!"opening {root} gives type {arg toks "type"}, created as {ty}" else w
          if arg toks "write" != wl then w.fail "C14" "acl" s!"opening {root} gives write list {arg toks "write"}, created with {wl}" else w
        | none => w
      -- a database obtained through `Open` exists locally from then on (F53)
      (w, { aw with local_ := if aw.local_.contains (q, root) then aw.local_ else (q, root) :: aw.local_ })

/-- `openaddr q <address string>`: an address given by the user (roots written `@rN@`), through the
`Open` model; and on the implementation alone: the address the store prints must name the database
whose manifest (type, write list) the store was opened with -/
def onOpenedAddr (w : World) (aw : AddrWorld) (toks : List String) : World × AddrWorld :=
  let q := peerNum (toks.getD 1 "")
  let addr := unhex (w.pending.getD 2 "")
  let localonly := w.pending.getD 3 "" == "localonly"
  let st0 := aw.ocState q
  let (mres, st1) := OC.openDB isCidTok aw.H st0 addr localonly false "" false
  let aw := aw.ocPut q st1
  let implErr := toks.getD 2 "" == "err"
  let w := match mres with
    | .ok (a, ty, mwl) =>
      if implErr then w.fail "corr" "open" s!"peer {q}: model opens '{addr}' as {a.root}, implementation refuses"
      else if a.root != s!"@{arg toks "root"}@" || ty != arg toks "type" || sortedAcl mwl != arg toks "write" then
        w.fail "corr" "open" s!"peer {q}: '{addr}': model opens {a.root} as {ty} writable by {sortedAcl mwl}, implementation {arg toks "root"} as {arg toks "type"} writable by {arg toks "write"}"
      else w
    | .error e =>
      if !implErr then w.fail "corr" "open" s!"peer {q}: model refuses to open '{addr}' ({repr e}), implementation opens {arg toks "root"}" else w
  if implErr then (w, aw) else
  -- C14: the printed address names the root the store carries, and that database's type and write list
  let str := unhex (arg toks "str")
  let w := match parse0 isCidTok str with
    | some b =>
      if b.root != s!"@{arg toks "root"}@" then
        w.fail "C14" "open" s!"peer {q}: opening '{addr}' gives a store that prints its address as '{str}' but carries the manifest of {arg toks "root"}" else w
    | none => w.fail "C14" "open" s!"peer {q}: opening '{addr}' gives a store whose printed address '{str}' is not an address"
  -- C14 (self-describing): the address of the store that came back is the address of a database — the
  -- one its root's manifest was created for, under the name it was created with
  let w := match parse0 isCidTok str with
    | some b =>
      match aw.ocNet.find? (fun (x : String × OC.Manifest) => x.1 == b.root) with
      | some (_, m) =>
        if joinAddr b.root m.name != print b then
          w.fail "C14" "selfdesc" s!"peer {q}: opening '{addr}' gives a store at '{str}', which is no database's address: the manifest under that root was created for the name '{m.name}'" else w
      | none => w
    | none => w
  let w := match aw.info.find? (·.1 == arg toks "root") with
    | some (_, ty, wl) =>
      let w := if arg toks "type" != ty then w.fail "C14" "type" s!"opening '{addr}' gives type {arg toks "type"}, {arg toks "root"} was created as {ty}" else w
      if arg toks "write" != wl then w.fail "C14" "acl" s!"opening '{addr}' gives write list {arg toks "write"}, {arg toks "root"} was created with {wl}" else w
    | none => w
  (w, { aw with local_ := if aw.local_.contains (q, arg toks "root") then aw.local_ else (q, arg toks "root") :: aw.local_ })

def onParsed (w : World) (aw : AddrWorld) (toks : List String) : World × AddrWorld :=
  match aw.last with
  | none => (w, aw)
  | some (root, path) =>
    if toks.getD 2 "" == "err" then (w.fail "C14" "parse" s!"the printed address of {root}/{path} does not parse", aw)
    else if arg toks "root" != root || unhex (arg toks "path") != path then
      (w.fail "C14" "parse" s!"the printed address of {root}/'{path}' parses back to {arg toks "root"}/'{unhex (arg toks "path")}'", aw)
    else (w, aw)

def onJoined (w : World) (toks : List String) : World :=
  let name := unhex (w.pending.getD 1 "")
  let impl := unhex (toks.getD 1 "")
  let model := joinAddr "ROOT" name
  if model != impl then w.fail "corr" "pathjoin" s!"path.Join(\"/orbitdb\",\"ROOT\",'{name}'): model '{model}', Go '{impl}'" else w

/-! ## snapshots -/

structure SnapState where
  vals  : List Nat
  heads : List Nat
  idx   : String
deriving Inhabited

structure SnapWorld where
  /-- peer key ↦ the states a successfully saved snapshot may hold: the state at the time of the save,
  or — when writes landed while it was being written — any state the store went through meanwhile -/
  saved : List (Nat × List SnapState) := []
  loaded : List Nat := []        -- peers whose next obs must equal (one of) the saved state(s)
  /-- a racing save is in progress on this store key: the states seen so far -/
  racing : Option (Nat × List SnapState) := none
  /-- store key ↦ what the replicator still had to fetch when the snapshot was saved: the instance
  that loads the snapshot resumes it, so these entries and their ancestors may be listed too -/
  queued : List (Nat × List Nat) := []
deriving Inhabited

def snapStateOf (w : World) (p : Nat) : SnapState :=
  let s := w.store p
  { vals := (values s.log).map (·.hash), heads := (sortedHeads s.log).map (·.hash), idx := showKV s.idx }

/-- the model store of a fresh instance that loaded a snapshot holding `vals` -/
def snapStore (w : World) (old : Store) (vals : List Nat) : Store :=
  let es := w.entriesOf vals
  let L := logOfEntries (w.curDb + 1) es
  let emptyIdx : KV := []
  let newIdx : KV := updateIndex old.kind emptyIdx L
  let n : Int := es.length
  let base : Store := old.reopened
  { base with log := bumpClock L, idx := newIdx, status := { progress := n, max := n } }

def onSnapSaved (w : World) (sw : SnapWorld) (toks : List String) : World × SnapWorld :=
  let p := peerNum (toks.getD 1 "")
  let cands : List SnapState := match sw.racing with
    | some (k, l) => if k == w.key p then l else [snapStateOf w p]
    | none => [snapStateOf w p]
  let sw := { sw with racing := none }
  match toks.getD 2 "" with
  | "ok" =>
    let saved' := (w.key p, cands) :: sw.saved.filter (·.1 != w.key p)
    let queued' := (w.key p, namesToNums (arg toks "queue")) :: sw.queued.filter (fun (x : Nat × List Nat) => x.1 != w.key p)
    (w, { sw with saved := saved', queued := queued' })
  | "err" => (w, sw)
  | "hung" => (w.fail "C13" "save" s!"peer {p}: SaveSnapshot did not come back (20 s) - it was called while a fetch was in flight", sw)
  | _ => (w.fail "C13" "save" s!"peer {p}: SaveSnapshot panicked", sw)

def onSnapLoaded (w : World) (sw : SnapWorld) (toks : List String) : World × SnapWorld :=
  let p := peerNum (toks.getD 1 "")
  let res := toks.getD 2 ""
  let old := w.store p
  let w := { w with lastObs := w.lastObs.filter (·.1 != w.key p), revBlind := w.revBlind.filter (· != w.key p) }
  match sw.saved.find? (·.1 == w.key p) with
  | none =>
    -- no snapshot was ever saved: loading reports "not found"
    let w := w.setStore p old.reopened
    (if res == "ok" then w.fail "corr" "snapload" s!"peer {p}: LoadFromSnapshot succeeded although no snapshot was saved" else w, sw)
  | some (_, cands) =>
    let vals := (cands.headD default).vals
    let w := { w.setStore p (snapStore w old vals) with resync := w.key p :: w.resync }
    let w := if res != "ok" then w.fail "C13" "load" s!"peer {p}: a snapshot was saved successfully but loading it reports {res}" else w
    let w := if arg toks "quiesce" != "true" then w.fail "C13" "load" s!"peer {p}: not quiescent after loading the snapshot" else w
    let w := { w with revBlind := w.revBlind.filter (· != w.key p), repls := w.repls.filter (fun (x : Nat × Repl.St) => x.1 != w.key p) }
    (w, { sw with loaded := w.key p :: sw.loaded })

/-- before the observation that follows a snapshot load is compared with the model: when the snapshot
was written while the log grew, the model continues from whichever of the candidate states the
implementation reloaded -/
def adoptSnapCandidate (w : World) (sw : SnapWorld) (toks : List String) : World :=
  let p := peerNum (toks.getD 1 "")
  if !sw.loaded.contains (w.key p) then w else
  match sw.saved.find? (·.1 == w.key p) with
  | some (_, cands) =>
    let iv := namesToNums (arg toks "values")
    let q := match sw.queued.find? (fun (x : Nat × List Nat) => x.1 == w.key p) with | some x => x.2 | none => []
    if !q.isEmpty then
      -- the resumed queue may have brought more entries: the model continues from the listing
      let s := snapStore w (w.store p) iv
      let L : Log := s.log
      let L' : Log := { L with heads := w.entriesOf (namesToNums (arg toks "heads")) }
      -- (which of the two joins came last decides the cached remote heads)
      w.setStore p { s with log := L', remoteHeads := cacheField (arg toks "remote") }
    else if cands.length > 1 then
      match cands.find? (fun c => c.vals == iv) with
      | some c => w.setStore p (snapStore w (w.store p) c.vals)
      | none => w
    else w
  | none => w

/-- after a snapshot load the observation must be exactly (one of) the saved state(s) -/
def checkSnapObs (w : World) (sw : SnapWorld) (toks : List String) : World × SnapWorld :=
  let p := peerNum (toks.getD 1 "")
  if !sw.loaded.contains (w.key p) then (w, sw) else
  let sw' := { sw with loaded := sw.loaded.filter (· != w.key p) }
  match sw.saved.find? (·.1 == w.key p) with
  | none => (w, sw')
  | some (_, cands) =>
    let iv := namesToNums (arg toks "values")
    let ih := namesToNums (arg toks "heads")
    let idx := showKV (parseKVs (arg toks "idx"))
    let okFor (c : SnapState) : Bool := iv == c.vals && ih == c.heads && (w.dbKind == Kind.log || idx == c.idx)
    let q := match sw.queued.find? (fun (x : Nat × List Nat) => x.1 == w.key p) with | some x => x.2 | none => []
    -- with a saved queue: a saved state is listed, and whatever else is listed was brought by the queue
    let allowed := w.ancestry q
    let okQ (c : SnapState) : Bool := c.vals.all (fun n => iv.contains n) && iv.all (fun n => c.vals.contains n || allowed.contains n)
    let w := if cands.any okFor || (!q.isEmpty && cands.any okQ) then w else
      match cands with
      | [c] =>
        if iv != c.vals || ih != c.heads then
          w.fail "C13" "reconstruct" s!"peer {p}: snapshot of values {showNums c.vals} heads {showNums c.heads} reloads as values {showNums iv} heads {showNums ih}"
        else w.fail "C13" "reconstruct" s!"peer {p}: index after reloading the snapshot differs from the saved one"
      | _ => w.fail "C13" "reconstruct" s!"peer {p}: the snapshot written while the log grew reloads as values {showNums iv} heads {showNums ih}, which is none of the {cands.length} states the store went through during the save"
    (w, sw')

/-! ## events -/

structure EvWorld where
  reads  : List (String × List Nat) := []     -- legacy subscriber ↦ everything received so far
  writes : List (Nat × Nat) := []             -- (peer, entry) write events seen
deriving Inhabited

def onERead (w : World) (ew : EvWorld) (toks : List String) : World × EvWorld :=
  let name := toks.getD 1 ""
  let got := (commaList (toks.getD 2 "-")).map (fun t => natOr t 0)
  let sofar := ((ew.reads.find? (·.1 == name)).map (·.2)).getD [] ++ got
  let want := (List.range sofar.length).map (· + 1)
  let w := if sofar != want then
      w.fail "C16" "order" s!"legacy subscriber {name} received {sofar}: not the emitted sequence 1,2,3,… in order without loss or duplication" else w
  (w, { ew with reads := (name, sofar) :: ew.reads.filter (·.1 != name) })

def onEFinal (w : World) (ew : EvWorld) (toks : List String) : World × EvWorld :=
  let n := natOr (toks.getD 1 "") 0
  (ew.reads.foldl (fun w (name, got) =>
    if got.length != n then w.fail "C16" "loss" s!"legacy subscriber {name} received {got.length} of {n} emitted events" else w) w, ew)

def onEClosed (w : World) (toks : List String) : World :=
  if toks.getD 2 "" != "true" then
    w.fail "C18" "leak" s!"legacy subscriber {toks.getD 1 ""}: its channel was never closed after its context ended (goroutine and bus subscription leak)" else w

def onEvent (w : World) (ew : EvWorld) (toks : List String) : World × EvWorld :=
  let p := peerNum (toks.getD 1 "")
  let kind := toks.getD 2 ""
  let es := namesToNums (arg toks "entries")
  let vals := namesToNums (arg toks "values")
  -- when the subscriber receives the event, queries already reflect the announced entries
  let w := es.foldl (fun w n => if !vals.contains n then
      w.fail "C16" "ahead" s!"peer {p}: {kind} event for e{n} received while the store lists {showNums vals}" else w) w
  let w := if w.dbKind == Kind.log then w else
      let ients := w.entriesOf vals
      let want := if w.dbKind == Kind.kv then lwwReplay ients else docReplay ients
      if showKV want != showKV (parseKVs (arg toks "idx")) then
        w.fail "C16" "ahead" s!"peer {p}: at the {kind} event for {showNums es} the index does not reflect the listing {showNums vals}" else w
  if kind == "write" then
    let n := es.headD 0
    let w := if es.length != 1 then w.fail "C16" "write" s!"peer {p}: write event carrying {es.length} entries" else w
    let w := if ew.writes.contains (p, n) then w.fail "C16" "dup" s!"peer {p}: two write events for e{n}" else w
    let w := match w.entry n with
      | some e => if e.ident != p || !w.acked.contains n then w.fail "C16" "write" s!"peer {p}: write event for e{n}, which is not an acknowledged local write of this peer" else w
      | none => w
    (w, { ew with writes := (p, n) :: ew.writes })
  else (w, ew)

structure Full where
  w  : World := {}
  aw : AddrWorld := {}
  sw : SnapWorld := {}
  ew : EvWorld := {}
  watched : List Nat := []
deriving Inhabited

def Full.step (f : Full) (line : String) : Full :=
  let toks := fields line
  let bump (w : World) : World := { w with lineNo := w.lineNo + 1 }
  match toks.headD "" with
  | "scn" => { w := f.w.stepAll line, aw := {}, sw := {}, ew := {}, watched := [] }
  | "closed" =>
    let w := { bump f.w with hadClose := true }
    let p := peerNum (toks.getD 1 "")
    let w := if arg toks "first" != "ok" || arg toks "second" != "ok" then
        w.fail "C18" "close" s!"peer {p}: Close / repeated Close returned {arg toks "first"} / {arg toks "second"}" else w
    { f with w := w }
  | "afterclose" =>
    let w := bump f.w
    let bad := (toks.drop 2).filter (fun t => t.endsWith "=panic" || t.endsWith "=hang")
    let w := if bad.isEmpty then w else w.fail "C18" "afterclose" s!"operations on the closed store of peer {toks.getD 1 ""}: {bad}"
    -- correspondence with the lifecycle model: on a closed store Load reports an error, everything else a harmless result
    let modelOut (op : String) : String :=
      let o : Orbit.Life.Op := match op with
        | "load" => .load | "sync" => .sync | "close" => .close
        | "put" | "add" => .write | _ => .read
      match (Orbit.Life.step { closed := true, closeCalls := 1 } o).2 with | .ok => "ok" | .err => "err"
    let diffs := (toks.drop 2).filter (fun t => match t.splitOn "=" with
      | [op, r] => r != "panic" && r != "hang" && r != modelOut op
      | _ => false)
    { f with w := if diffs.isEmpty then w else w.fail "corr" "afterclose" s!"closed store of peer {toks.getD 1 ""}: implementation {diffs}, lifecycle model disagrees" }
  | "burst" =>
    -- heads of several databases delivered back to back: each database of the receiver must now list
    -- what the sender's same database held (nothing was lost, cut or rejected in these scenarios)
    let w := bump f.w
    let q := toks.getD 1 ""
    let snd := namesToNums (arg toks "sender")
    let rcv := namesToNums (arg toks "receiver")
    let missing := snd.filter (fun n => !rcv.contains n)
    { f with w := if missing.isEmpty then w else
        w.fail "C09" "burst" s!"peer {q} database {arg toks "db"}: heads of several databases arrived back to back from peer {arg toks "from"}; this database still lacks {showNums (sortNums missing)} (the other databases' messages disturbed it)" }
  | "leveldropped" =>
    -- Drop through an old handle after the database was reopened, over the library's own cache manager
    let w := bump f.w
    let bad := (toks.drop 2).filter (fun t => t.endsWith "=panic" || t.endsWith "=hang")
    { f with w := if bad.isEmpty then w else
        w.fail "C18" "afterclose" s!"peer {toks.getD 1 ""}: Drop through an old handle of a reopened database, then use and close of the new handle and of the instance: {bad}" }
  | "leak" =>
    let w := bump f.w
    let extra := parseInt (arg toks "extra")
    let w := if extra > 0 then w.fail "C18" "leak" s!"{extra} store-layer goroutines still running after every store was closed: {arg toks "kinds"}" else w
    let w := if parseInt (arg toks "busblocked") > 0 then w.fail "C18" "leak" s!"after Close, {arg toks "busblocked"} instance(s) left a subscription on the event bus that nobody reads: an emitter of pubsub payloads blocks for ever once its buffer is full" else w
    let subs := parseInt (arg toks "subs")
    { f with w := if subs > 0 then w.fail "C18" "leak" s!"{subs} subscription(s) of the underlying pubsub are still open after every store was closed: the node stays on the topic, its peers never see it leave or come back" else w }
  | "dropped" =>
    let w := bump f.w
    let p := peerNum (toks.getD 1 "")
    let k := natOr (arg toks "db") 0
    let left := (commaList (arg toks "left")).map (fun t => natOr t 0)
    let w := if toks.getD 2 "" != "ok" then w.fail "C18" "drop" s!"peer {p}: Drop returned {toks.getD 2 ""}" else w
    let w := if left.contains k then w.fail "C18" "drop" s!"peer {p}: local data of database {k} still present after Drop" else w
    let others := (List.range w.nDb).filter (· != k)
    let w := others.foldl (fun w d => if !left.contains d then w.fail "C18" "drop" s!"peer {p}: Drop of database {k} removed the local data of database {d}" else w) w
    -- the model forgets the dropped database's local state
    let cur := w.curDb
    let w := ((w.useDb k).setStore p { kind := (w.useDb k).dbKind, log := Log.empty (k + 1) }).useDb cur
    { f with w := w }
  | "eread" => let (w, ew) := onERead (bump f.w) f.ew toks; { f with w := w, ew := ew }
  | "efinal" => let (w, ew) := onEFinal (bump f.w) f.ew toks; { f with w := w, ew := ew }
  | "eclosed" => { f with w := onEClosed (bump f.w) toks }
  | "doctorn" =>
    -- C07: a Query that runs while a batch put lands returns one state of the documents: both members
    -- of the old batch or both of the new one, never one of each, never an error
    let w := bump f.w
    let gens := arg toks "gens"
    { f with w := if arg toks "err" != "false" || (gens.splitOn ",").length != 1 || gens == "-" || arg toks "n" != "2" then
        w.fail "C07" "atomic" s!"peer {toks.getD 1 ""}: a Query overlapping a batch put of two documents returned {arg toks "n"} of them from generations [{gens}] (error: {arg toks "err"}): not a state the replica ever held" else w }
  | "buscensus" =>
    -- C18: an instance that has been closed listens to nothing on its event bus any more (the bus may be
    -- the caller's own: a subscription nobody reads blocks whoever emits on it once its buffer is full)
    let w := bump f.w
    { f with w := if toks.getD 2 "-" != "-" then
        w.fail "C18" "leak" s!"peer {toks.getD 1 ""}: after the instance was closed these subscriptions of the library are still open on its event bus: {toks.getD 2 ""}" else w }
  | "reuseopts" =>
    let w := bump f.w
    -- (a name Create refuses is refused both times: nothing to judge)
    { f with w := if arg toks "first" == "ok" && arg toks "second" == "ok" then
        w.fail "C14" "create" s!"peer {toks.getD 1 ""}: Create over an existing local database succeeded without overwrite: the options value had been used for Open(name, Create: true) before, which wrote Overwrite={arg toks "overwrite"} into it" else w }
  | "reuseac" =>
    let w := bump f.w
    -- model (`Params.run useCopy`): every call works on a copy of the caller's value, which stays as it was
    let calls := [(toks.getD 1 "", "a"), (toks.getD 2 "", "b")]
    let made := Params.run Params.useCopy {} calls
    let w := if arg toks "second" == "ok" && [arg toks "write"] != (made.getD 1 {}).write then
        w.fail "corr" "reuseac" s!"second database: model write list {(made.getD 1 {}).write}, implementation [{arg toks "write"}]" else w
    let w := if arg toks "first" == "ok" && arg toks "left" != "-" then
        w.fail "corr" "reuseac" s!"the caller's access controller parameters came back changed: {arg toks "left"} (model: untouched)" else w
    -- with no write list given, the creator's own id is the default: whoever used the parameters value before
    { f with w := if arg toks "second" == "ok" && arg toks "write" != toks.getD 2 "" then
        w.fail "C14" "acl" s!"peer {toks.getD 2 ""} created a database with no write list given and its write list is [{arg toks "write"}], not its own id: the access controller parameters value had been handed to peer {toks.getD 1 ""}'s DetermineAddress before, which wrote into it" else w }
  | "reusefront" =>
    let w := bump f.w
    { f with w := if arg toks "first" == "ok" && arg toks "second" == "ok" then
        w.fail "C14" "create" s!"peer {toks.getD 1 ""}: Open of a name that was never created succeeded although the caller never set Create: the options value had been handed to a typed front end before, which wrote Create={arg toks "create"} into it" else w }
  | "eglobal" =>
    let w := bump f.w
    let w := if arg toks "first" != "true" then w.fail "C16" "loss" "GlobalChannel: the first caller did not receive the emitted event" else w
    { f with w := if arg toks "second" != "2" then w.fail "C16" "loss" s!"GlobalChannel: a caller with a live context, arriving after the first caller's context ended, got `{arg toks "second"}` instead of the event emitted for it (the channel bound to the first caller's context is handed out for ever)" else w }
  | "enilbus" =>
    let w := bump f.w
    let w := if arg toks "put" != "ok" || arg toks "bus" != "true" then w.fail "C16" "write" s!"store with the default bus: put={arg toks "put"}, write event on the bus: {arg toks "bus"}" else w
    { f with w := if arg toks "legacy" != "true" then w.fail "C16" "loss" "store built with the default (nil) EventBus option: its legacy channel API never delivered the write event (it listens to another bus)" else w }
  | "ewedge" =>
    let w := bump f.w
    let wedged := parseInt (arg toks "wedged")
    let lost := parseInt (arg toks "lost")
    let w := if wedged > 0 then w.fail "C16" "wedge" s!"in {wedged} of {arg toks "trials"} trials an Emit never returned after a legacy subscriber unsubscribed: the bus is wedged, every later event is lost for every subscriber" else w
    { f with w := if lost > 0 then w.fail "C16" "loss" s!"in {lost} of {arg toks "trials"} trials the remaining legacy subscriber did not receive every event after the other one unsubscribed" else w }
  | "event" => let (w, ew) := onEvent (bump f.w) f.ew toks; { f with w := w, ew := ew }
  | "op" =>
    let f := if toks.getD 1 "" == "evwatch" then { f with watched := peerNum (toks.getD 2 "") :: f.watched } else f
    let f := if toks.getD 1 "" == "snapsaverace" then
        let p := peerNum (toks.getD 2 "")
        { f with sw := { f.sw with racing := some (f.w.key p, [snapStateOf f.w p]) } } else f
    { f with w := f.w.stepAll line }
  | "end" =>
    -- exactly one write event per successful local write on every watched peer
    let w := f.watched.foldl (fun w p =>
      let mine := w.acked.filter (fun n => match w.entry n with | some e => e.ident == p | none => false)
      let missing := mine.filter (fun n => !f.ew.writes.contains (p, n))
      if missing.isEmpty then w else w.fail "C16" "loss" s!"peer {p}: no write event for acknowledged writes {showNums (sortNums missing)}") f.w
    { f with w := w.stepAll line }
  | "addr" => let (w, aw) := onAddr (bump f.w) f.aw toks; { f with w := w, aw := aw }
  | "created" => let (w, aw) := onCreated (bump f.w) f.aw toks; { f with w := w, aw := aw }
  | "opened" =>
    if (arg? toks "db").isSome then { f with w := f.w.stepAll line }
    else if f.w.pending.headD "" == "openaddr" then let (w, aw) := onOpenedAddr (bump f.w) f.aw toks; { f with w := w, aw := aw }
    else let (w, aw) := onOpened (bump f.w) f.aw toks; { f with w := w, aw := aw }
  | "parsed" => let (w, aw) := onParsed (bump f.w) f.aw toks; { f with w := w, aw := aw }
  | "joined" => { f with w := onJoined (bump f.w) toks }
  | "snapsaved" => let (w, sw) := onSnapSaved (bump f.w) f.sw toks; { f with w := w, sw := sw }
  | "ack" =>
    let w := f.w.stepAll line
    -- a write that landed while a snapshot is being written: one more state the snapshot may hold
    let sw := match f.sw.racing with
      | some (k, l) => let p := peerNum (toks.getD 1 ""); if w.key p == k then { f.sw with racing := some (k, l ++ [snapStateOf w p]) } else f.sw
      | none => f.sw
    { f with w := w, sw := sw }
  | "snaploaded" => let (w, sw) := onSnapLoaded (bump f.w) f.sw toks; { f with w := w, sw := sw }
  | "obs" =>
    let w := (adoptSnapCandidate f.w f.sw toks).stepAll line
    let (w, sw) := checkSnapObs w f.sw toks
    { f with w := w, sw := sw }
  | _ => { f with w := f.w.stepAll line }

end Orbit.Driver
