import OrbitModel.Driver.Transport
import OrbitModel.Model.Path
/-!
# Driver: address lines (C14) and snapshot lines (C13)
-/
namespace Orbit.Driver
open Orbit.Path

def isCidTok (s : String) : Bool := s.length ≥ 3 && s.startsWith "@" && s.endsWith "@"

structure AddrWorld where
  roots   : List (String × String) := []            -- input key ↦ root name
  local_  : List (Nat × String) := []               -- (peer, root) with a local manifest marker
  info    : List (String × String × String) := []   -- root ↦ (type, write list)
  last    : Option (String × String) := none        -- root, path of the last created database
deriving Inhabited

def storeType (k : String) : String :=
  match k with | "kv" => "keyvalue" | "doc" => "docstore" | "log" => "eventlog" | x => x

def writeList (acl : String) (p : Nat) : String :=
  if acl == "default" then toString p else if acl == "*" then "*"
  else ",".intercalate ((sortNums ((commaList acl).map (fun t => natOr t 0))).map toString)

def addrKey (name kind acl : String) (p : Nat) : String :=
  name ++ "|" ++ kind ++ "|" ++ (if acl == "default" then toString p else acl)

/-- model of DetermineAddress on placeholder names: `some path` or `none` -/
def modelDetermine (name : String) : Option String := (determine isCidTok "@H@" name).map (·.path)

def onAddr (w : World) (aw : AddrWorld) (toks : List String) : World × AddrWorld :=
  let p := peerNum (toks.getD 1 "")
  let name := unhex (w.pending.getD 2 "")
  let kind := w.pending.getD 3 ""
  let acl := w.pending.getD 4 ""
  let key := addrKey name kind acl p
  let model := modelDetermine name
  if toks.getD 2 "" == "err" then
    (if model.isSome then w.fail "corr" "addr" s!"name '{name}': model accepts (path {model.getD ""}), implementation refuses" else w, aw)
  else
    let root := arg toks "root"
    let path := unhex (arg toks "path")
    let str := unhex (arg toks "str")
    let w := match model with
      | none => w.fail "C14" "root" s!"name '{name}' must be refused (it does not stay below its own root, or is itself an address) but yields root {root} path '{path}'"
      | some mp =>
        let w := if mp != path then w.fail "corr" "addr" s!"name '{name}': model path '{mp}', implementation '{path}'" else w
        if str != joinAddr s!"@{root}@" path then w.fail "C14" "print" s!"address prints as '{str}', expected '{joinAddr s!"@{root}@" path}'" else w
    -- deterministic: same inputs ⇒ same root (on any peer); injective: different inputs ⇒ different roots
    match aw.roots.find? (·.1 == key) with
    | some (_, r) => (if r != root then w.fail "C14" "deterministic" s!"inputs {key} gave root {r} before and {root} now" else w, aw)
    | none =>
      let w := match aw.roots.find? (·.2 == root) with
        | some (k, _) => if model.isSome then w.fail "C14" "injective" s!"inputs {key} and {k} give the same root {root}" else w
        | none => w
      (w, { aw with roots := (key, root) :: aw.roots })

def onCreated (w : World) (aw : AddrWorld) (toks : List String) : World × AddrWorld :=
  let p := peerNum (toks.getD 1 "")
  let name := unhex (w.pending.getD 2 "")
  let kind := w.pending.getD 3 ""
  let acl := w.pending.getD 4 ""
  let overwrite := w.pending.getD 5 "" == "overwrite"
  let key := addrKey name kind acl p
  let model := modelDetermine name
  let knownRoot := (aw.roots.find? (·.1 == key)).map (·.2)
  let haveLocal := match knownRoot with | some r => aw.local_.contains (p, r) | none => false
  let expectOk := model.isSome && (!haveLocal || overwrite)
  if toks.getD 2 "" == "err" then
    (if expectOk then w.fail "C14" "create" s!"Create('{name}') by peer {p} refused although the name is valid and no local database exists (or overwrite was set)" else w, aw)
  else
    let root := arg toks "root"
    let w := if !model.isSome then w.fail "C14" "create" s!"Create('{name}') must be refused but returned root {root} type {arg toks "type"}"
             else if haveLocal && !overwrite then w.fail "C14" "create" s!"Create('{name}') over an existing local database succeeded without overwrite" else w
    let w := if arg toks "type" != storeType kind then w.fail "C14" "type" s!"Create('{name}', {kind}) returned a store of type {arg toks "type"}" else w
    let w := if arg toks "write" != writeList acl p then w.fail "C14" "acl" s!"Create('{name}') with write list {acl} returned a store writable by {arg toks "write"}" else w
    let w := match knownRoot with
      | some r => if r != root then w.fail "C14" "deterministic" s!"Create('{name}') has root {root}, DetermineAddress said {r}" else w
      | none => w
    (w, { aw with local_ := (p, root) :: aw.local_, info := (root, storeType kind, writeList acl p) :: aw.info,
                  last := some (root, unhex (arg toks "path")), roots := if knownRoot.isSome then aw.roots else (key, root) :: aw.roots })

def onOpened (w : World) (aw : AddrWorld) (toks : List String) : World × AddrWorld :=
  let q := peerNum (toks.getD 1 "")
  let localonly := w.pending.getD 2 "" == "localonly"
  match aw.last with
  | none => (w, aw)
  | some (root, path) =>
    let haveLocal := aw.local_.contains (q, root)
    let expectOk := !localonly || haveLocal
    if toks.getD 2 "" == "err" then
      (if expectOk then w.fail "C14" "open" s!"peer {q} could not open {root}/{path}" else w, aw)
    else
      let w := if !expectOk then w.fail "C14" "open" s!"peer {q} opened {root} local-only although it has no local copy" else w
      let w := if arg toks "root" != root || unhex (arg toks "path") != path then
          w.fail "C14" "open" s!"peer {q} opened {arg toks "root"}/{unhex (arg toks "path")} instead of {root}/{path}" else w
      let w := match aw.info.find? (·.1 == root) with
        | some (_, ty, wl) =>
          let w := if arg toks "type" != ty then w.fail "C14" "type" s!"opening {root} gives type {arg toks "type"}, created as {ty}" else w
          if arg toks "write" != wl then w.fail "C14" "acl" s!"opening {root} gives write list {arg toks "write"}, created with {wl}" else w
        | none => w
      (w, aw)

def onParsed (w : World) (aw : AddrWorld) (toks : List String) : World × AddrWorld :=
  match aw.last with
  | none => (w, aw)
  | some (root, path) =>
    if toks.getD 2 "" == "err" then (w.fail "C14" "parse" s!"the printed address of {root}/{path} does not parse", aw)
    else if arg toks "root" != root || unhex (arg toks "path") != path then
      (w.fail "C14" "parse" s!"the printed address of {root}/'{path}' parses back to {arg toks "root"}/'{unhex (arg toks "path")}'", aw)
    else (w, aw)

def onJoined (w : World) (toks : List String) : World :=
  let name := unhex (w.pending.getD 1 "")
  let impl := unhex (toks.getD 1 "")
  let model := joinAddr "ROOT" name
  if model != impl then w.fail "corr" "pathjoin" s!"path.Join(\"/orbitdb\",\"ROOT\",'{name}'): model '{model}', Go '{impl}'" else w

/-! ## snapshots -/

structure SnapWorld where
  /-- peer key ↦ (values, heads, index) at the time of the last successful save -/
  saved : List (Nat × List Nat × List Nat × String) := []
  loaded : List Nat := []        -- peers whose next obs must equal the saved state
deriving Inhabited

def onSnapSaved (w : World) (sw : SnapWorld) (toks : List String) : World × SnapWorld :=
  let p := peerNum (toks.getD 1 "")
  match toks.getD 2 "" with
  | "ok" =>
    let s := w.store p
    (w, { sw with saved := (w.key p, (values s.log).map (·.hash), (sortedHeads s.log).map (·.hash), showKV s.idx) :: sw.saved.filter (·.1 != w.key p) })
  | "err" => (w, sw)
  | _ => (w.fail "C13" "save" s!"peer {p}: SaveSnapshot panicked", sw)

def onSnapLoaded (w : World) (sw : SnapWorld) (toks : List String) : World × SnapWorld :=
  let p := peerNum (toks.getD 1 "")
  let res := toks.getD 2 ""
  let old := w.store p
  let w := { w with lastObs := w.lastObs.filter (·.1 != w.key p) }
  match sw.saved.find? (·.1 == w.key p) with
  | none =>
    -- no snapshot was ever saved: loading reports "not found"
    let w := w.setStore p old.reopened
    (if res == "ok" then w.fail "corr" "snapload" s!"peer {p}: LoadFromSnapshot succeeded although no snapshot was saved" else w, sw)
  | some (_, vals, _, _) =>
    let es := w.entriesOf vals
    let L := logOfEntries (w.curDb + 1) es
    let emptyIdx : KV := []
    let newIdx : KV := updateIndex old.kind emptyIdx L
    let n : Int := es.length
    let base : Store := old.reopened
    let s : Store := { base with log := bumpClock L, idx := newIdx, status := { progress := n, max := n } }
    let w := { w.setStore p s with resync := w.key p :: w.resync }
    let w := if res != "ok" then w.fail "C13" "load" s!"peer {p}: a snapshot was saved successfully but loading it reports {res}" else w
    let w := if arg toks "quiesce" != "true" then w.fail "C13" "load" s!"peer {p}: not quiescent after loading the snapshot" else w
    (w, { sw with loaded := w.key p :: sw.loaded })

/-- after a snapshot load the observation must be exactly the saved state -/
def checkSnapObs (w : World) (sw : SnapWorld) (toks : List String) : World × SnapWorld :=
  let p := peerNum (toks.getD 1 "")
  if !sw.loaded.contains (w.key p) then (w, sw) else
  let sw' := { sw with loaded := sw.loaded.filter (· != w.key p) }
  match sw.saved.find? (·.1 == w.key p) with
  | none => (w, sw')
  | some (_, vals, heads, idx) =>
    let iv := namesToNums (arg toks "values")
    let ih := namesToNums (arg toks "heads")
    let w := if iv != vals || ih != heads then
        w.fail "C13" "reconstruct" s!"peer {p}: snapshot of values {showNums vals} heads {showNums heads} reloads as values {showNums iv} heads {showNums ih}" else w
    let w := if w.dbKind != Kind.log && showKV (parseKVs (arg toks "idx")) != idx then
        w.fail "C13" "reconstruct" s!"peer {p}: index after reloading the snapshot differs from the saved one" else w
    (w, sw')

structure Full where
  w  : World := {}
  aw : AddrWorld := {}
  sw : SnapWorld := {}
deriving Inhabited

def Full.step (f : Full) (line : String) : Full :=
  let toks := fields line
  let bump (w : World) : World := { w with lineNo := w.lineNo + 1 }
  match toks.headD "" with
  | "scn" => { w := f.w.stepAll line, aw := {}, sw := {} }
  | "addr" => let (w, aw) := onAddr (bump f.w) f.aw toks; { f with w := w, aw := aw }
  | "created" => let (w, aw) := onCreated (bump f.w) f.aw toks; { f with w := w, aw := aw }
  | "opened" =>
    if (arg? toks "db").isSome then { f with w := f.w.stepAll line }
    else let (w, aw) := onOpened (bump f.w) f.aw toks; { f with w := w, aw := aw }
  | "parsed" => let (w, aw) := onParsed (bump f.w) f.aw toks; { f with w := w, aw := aw }
  | "joined" => { f with w := onJoined (bump f.w) toks }
  | "snapsaved" => let (w, sw) := onSnapSaved (bump f.w) f.sw toks; { f with w := w, sw := sw }
  | "snaploaded" => let (w, sw) := onSnapLoaded (bump f.w) f.sw toks; { f with w := w, sw := sw }
  | "obs" =>
    let w := f.w.stepAll line
    let (w, sw) := checkSnapObs w f.sw toks
    { f with w := w, sw := sw }
  | _ => { f with w := f.w.stepAll line }

end Orbit.Driver
