import OrbitModel.Driver.Parse
import OrbitModel.Model.Decode
import OrbitModel.Driver.ReplReplay
/-!
# Driver world: replays a trace through the L0 model (correspondence) and evaluates the L1
predicates on the implementation's own observations (specification).

Every failure is one line `FAIL scn=… line=… prop=<Cnn|corr> field=… msg=…`.
`prop=corr` means "model and implementation disagree on this field"; `prop=Cnn` means "the
implementation's own observation violates property Cnn's L1 predicate".
-/
namespace Orbit.Driver

structure PeerObs where
  events : String := "-"
  values : List Nat := []
  idx    : List (String × String) := []
  status : Int × Int := (0, 0)
  seen   : Bool := false
deriving Inhabited

structure World where
  scn      : String := ""
  kind     : Kind := .kv
  acl      : Acl := {}
  ranks    : List (Nat × Nat) := []
  entries  : Array Entry := #[]
  stores   : List (Nat × Store) := []
  pending  : List String := []
  lastObs  : List (Nat × PeerObs) := []
  /-- C01: entry set (sorted hashes) ↦ canonical state first seen with it -/
  states   : List (List Nat × String) := []
  syncSrc  : Option (Nat × List Nat) := none
  msgHeads : Option (List Nat) := none
  /-- peers whose status depends on a scheduler choice the trace does not record (the order in
  which `Load` handled the cached heads): the model adopts the next observed status -/
  resync   : List Nat := []
  acked    : List Nat := []               -- entries whose write call returned success
  inflight : List Nat := []               -- peers with replication requests that have not settled
  revBlind : List Nat := []               -- stores loading a snapshot: the join of the snapshot and the resumed queue race, steps not replayed
  revSkipped : Nat := 0
  announced : List (Nat × List Nat) := [] -- per store: the heads `Sync` handed to its replicator
  curDb    : Nat := 0                     -- multi-database scenarios: the database ops apply to
  nDb      : Nat := 1
  dbKinds  : List (Nat × Kind) := []
  lastOpDb : Option Nat := none           -- database touched by the last state-changing op
  dbAcls   : List (Nat × Acl) := []
  /-- C15: after `restart p n` — (store key, n, full listing persisted before the restart) -/
  limited  : List (Nat × Int × List Nat) := []     -- source peer's entry hashes at sync time
  hadRaw : Bool := false                          -- a validly signed entry with a hand-made payload was delivered in this scenario
  rputFail : List (Nat × Nat) := []              -- per store: injected failures of the `_remoteHeads` Put still to be matched with batches
  /-- stores opened by `Load` in this life: `Load` returns while its progress goroutine may still be
  handling the last fetched entry; handled after the join it sees the full log length and lifts the
  status to len/len, at a moment the trace does not record (seen under CPU load) -/
  lateLoad : List Nat := []
  maxHist : Option Int := none                    -- `maxhist=N`: the stores of the scenario are built with MaxHistory = N
  justLoaded : List Nat := []                     -- stores whose next observation is the first one after a restart + Load
  gone : List Nat := []                           -- blocks nobody holds any more (`dropblock`)
  unreachFail : Bool := false                     -- a block nobody holds is reported as not found at once (`unreach=fail`)
  badOps : List Nat := []                         -- entries whose payload does not decode as an operation at all (a writer is not bound to the store API)
  liveLoaded : List Nat := []                     -- stores on which `Load` was called again while open (followed from the implementation until the next restart)
  partialStores : List Nat := []                  -- stores loaded with a limit below what is persisted (until the next unlimited load)
  /-- C05: per store key, the entries seen listed at rest or acknowledged to their writer: all of
  them are covered by the cached heads, so a clean restart followed by `Load(-1)` must list them -/
  durable  : List (Nat × List Nat) := []
  /-- C05: after `restart p` (no limit): (store key, entries that must be listed again) -/
  mustRecover : List (Nat × List Nat) := []
  faulty   : Bool := false                -- a fetch failure is being injected (`failget`)
  hadConcurrent : Bool := false           -- concurrent writers ran in this scenario (`cacks`)
  hadClose : Bool := false                -- a store was closed in this scenario (`closed`)
  /-- entries appended by writes that then FAILED (head not persisted): not acknowledged, so not owed
  to anybody after a restart, and not required to be covered by the cached heads -/
  unacked  : List Nat := []
  /-- step-by-step replay of each store's replicator (`rev` lines): store key ↦ model state -/
  repls    : List (Nat × Repl.St) := []
  ctxIds   : List (String × Nat) := []    -- request context names ↦ numbers (`live` = 0)
  inRev    : Bool := false                -- the previous line was a `rev` line of the same batch
  /-- LoadEnds the store handled before the step that emitted them was recorded (its hook comes after
  the emit, inside the same lock section): replayed right after that step -/
  deferredDeliver : List (Nat × Nat) := []
  lineNo   : Nat := 0
  nFail    : Nat := 0
  nObs     : Nat := 0
  out      : Array String := #[]
deriving Inhabited

def World.fail (w : World) (prop field msg : String) : World :=
  { w with nFail := w.nFail + 1,
           out := w.out.push s!"FAIL scn={w.scn} line={w.lineNo} prop={prop} field={field} msg={msg}" }

/-- key of peer `p`'s store of the current database -/
def World.key (w : World) (p : Nat) : Nat := p + 1000 * w.curDb
def World.dbKind (w : World) : Kind := ((w.dbKinds.find? (·.1 == w.curDb)).map (·.2)).getD w.kind
def World.store (w : World) (p : Nat) : Store :=
  ((w.stores.find? (·.1 == w.key p)).map (·.2)).getD { kind := w.dbKind, log := Log.empty (w.curDb + 1) }
def World.setStore (w : World) (p : Nat) (s : Store) : World :=
  { w with stores := (w.key p, s) :: w.stores.filter (·.1 != w.key p) }
def World.obsOf (w : World) (p : Nat) : PeerObs := ((w.lastObs.find? (·.1 == w.key p)).map (·.2)).getD {}
def World.setObs (w : World) (p : Nat) (o : PeerObs) : World :=
  { w with lastObs := (w.key p, o) :: w.lastObs.filter (·.1 != w.key p) }
def World.entry (w : World) (n : Nat) : Option Entry := if n == 0 then none else w.entries[n - 1]?
def World.entriesOf (w : World) (ns : List Nat) : List Entry := ns.filterMap w.entry
/-- C05: the entries of store `k` that a clean restart must bring back -/
def World.durableOf (w : World) (k : Nat) : List Nat :=
  match w.durable.find? (fun (x : Nat × List Nat) => x.1 == k) with | some x => x.2 | none => []
def World.setDurable (w : World) (k : Nat) (l : List Nat) : World :=
  { w with durable := (k, l) :: w.durable.filter (fun (x : Nat × List Nat) => x.1 != k) }
def World.rank (w : World) (p : Nat) : Nat := ((w.ranks.find? (·.1 == p)).map (·.2)).getD 999

def insSorted (n : Nat) : List Nat → List Nat
  | [] => [n]
  | m :: ms => if n ≤ m then n :: m :: ms else m :: insSorted n ms
def sortNums (l : List Nat) : List Nat := l.foldr insSorted []

def isSubseq : List Nat → List Nat → Bool
  | [], _ => true
  | _ :: _, [] => false
  | a :: as, b :: bs => if a == b then isSubseq as bs else isSubseq (a :: as) bs

def sameSet (a b : List Nat) : Bool := sortNums a == sortNums b

def idxOf (l : List Nat) (n : Nat) : Option Nat := l.findIdx? (· == n)

/-- scenario header -/
def World.onScn (_ : World) (toks : List String) : World :=
  let kind := match arg toks "kind" with | "doc" => Kind.doc | "log" => Kind.log | _ => Kind.kv
  let aclS := arg toks "acl"
  let acl : Acl := if aclS == "*" then { wildcard := true } else { ids := (commaList aclS).map peerNum }
  let peers := (commaList (arg toks "peers")).map peerNum
  { scn := toks.getD 1 "?", kind := kind, acl := acl, dbKinds := [(0, kind)], dbAcls := [(0, acl)],
    stores := peers.map (fun p => (p, { kind := kind })), unreachFail := arg toks "unreach" == "fail",
    maxHist := (arg? toks "maxhist").map parseInt }

/-- model `AddOperation` for the declared entry `n`, compared with the implementation's entry -/
def World.modelAdd (w : World) (p : Nat) (n : Nat) : World :=
  match w.entry n with
  | none => w.fail "corr" "ack" s!"unknown entry e{n}"
  | some e =>
    let s := w.store p
    let (s', r) := s.addOp w.acl (fun t nx => { e with time := t, next := nx })
    match r with
    | .error err => (w.setStore p s').fail "corr" "ack" s!"model refuses ({err}) an append the implementation acknowledged: e{n}"
    | .ok me =>
      let w := w.setStore p s'
      let w := if me.time != e.time then w.fail "corr" "time" s!"e{n}: model time {me.time}, implementation {e.time}" else w
      let w := if !sameSet me.next e.next then w.fail "corr" "next" s!"e{n}: model next {showNums me.next}, implementation {showNums e.next}" else w
      let w := if e.cid != w.rank p then w.fail "corr" "clockid" s!"e{n}: clock id rank {e.cid}, writer rank {w.rank p}" else w
      let w := if e.ident != p || e.key != p then w.fail "corr" "author" s!"e{n}: ident {e.ident} key {e.key}, writer {p}" else w
      -- the model continues from the implementation's entry (so one disagreement is reported once)
      let s'' := { s' with log := { s'.log with entries := s'.log.entries.map (fun x => if x.hash == n then e else x),
                                                 heads := s'.log.heads.map (fun x => if x.hash == n then e else x) } }
      w.setStore p s''

/-- `ackfail p eN`: the write failed after its entry was appended — the head could not be persisted
(`Order.addOperation`: lock, append, status, then the head put fails and the call returns its error):
the entry is in the log and counted in the status; the cached head, the view and the caller's
acknowledgement are not updated -/
def World.onAckFail (w : World) (toks : List String) : World :=
  let p := peerNum (toks.getD 1 "")
  let n := entryNum (toks.getD 2 "")
  match w.entry n with
  | none => w.fail "corr" "ack" s!"unknown entry e{n}"
  | some e =>
    let s := w.store p
    match append w.acl.canAppend s.log (fun t nx => { e with time := t, next := nx }) with
    | (L', .ok me) =>
      let st := recalcStatus L'.entries.length s.status me.time
      let L'' := { L' with entries := L'.entries.map (fun x => if x.hash == n then e else x),
                           heads := L'.heads.map (fun x => if x.hash == n then e else x) }
      { w.setStore p { s with log := L'', status := st } with unacked := n :: w.unacked }
    | (_, .error err) => w.fail "corr" "ack" s!"model refuses ({err}) an append the implementation made: e{n}"

def World.onAck (w : World) (toks : List String) : World :=
  let p := peerNum (toks.getD 1 "")
  let r := toks.getD 2 ""
  if r == "err" then
    -- the implementation refused the write: the model must refuse it too
    let s := w.store p
    let probe : Entry := { hash := w.entries.size + 1000, logId := 1, time := 0, cid := w.rank p, next := [], ident := p, key := p }
    let opName := w.pending.headD ""
    if opName == "docdel" then
      -- Delete of an absent key is refused before any append
      let k := unhex (w.pending.getD 2 "")
      if (KV.get s.idx k).isSome then w.fail "corr" "ack" s!"model accepts docdel of present key, implementation refused" else w
    else if w.acl.canAppend probe then
      w.fail "corr" "ack" s!"implementation refused a write by authorised peer {p}"
    else
      -- denied append still bumps the clock
      let (s', _) := s.addOp w.acl (fun t nx => { probe with time := t, next := nx })
      w.setStore p s'
  else
    let n := entryNum r
    -- C07: deleting an absent key is refused (the view before this write does not hold the key)
    let w := if w.pending.headD "" == "docdel" && (KV.get (w.store p).idx (unhex (w.pending.getD 2 ""))).isNone then
        w.fail "C07" "delete" s!"peer {p}: Delete of the absent key {w.pending.getD 2 ""} was accepted (e{n} appended); view: {showKV (w.store p).idx}" else w
    let w := { w with acked := n :: w.acked }
    let w := w.setDurable (w.key p) (n :: w.durableOf (w.key p))
    let w := w.modelAdd p n
    -- C03 (local): a non-writer's local write must fail
    match w.entry n with
    | some e => if !(w.acl.canAppend e) then w.fail "C03" "ack" s!"local write by non-writer {p} acknowledged (e{n})" else w
    | none => w

def World.onAckBatch (w : World) (toks : List String) : World :=
  let p := peerNum (toks.getD 1 "")
  (namesToNums (arg toks "created")).foldl (fun w n => { w with acked := n :: w.acked }.modelAdd p n) w

def parseLogs (w : World) (s : String) : List (OMap × OMap) :=
  (s.splitOn ";").map (fun part => match part.splitOn "/" with
    | [es, hs] => (w.entriesOf (namesToNums es), w.entriesOf (namesToNums hs))
    | _ => ([], []))

def World.onHeads (w : World) (toks : List String) : World :=
  let q := peerNum (toks.getD 1 "")
  let impl := namesToNums (toks.getD 2 "-")
  let model := (sortedHeads (w.store q).log).map (·.hash)
  let w := { w with syncSrc := some (q, (w.store q).log.entries.map (·.hash)) }
  if impl != model then w.fail "corr" "heads" s!"peer {q}: model heads {showNums model}, implementation {showNums impl}" else w

def World.onLoadEnd (w : World) (toks : List String) : World :=
  let p := peerNum (toks.getD 1 "")
  let logs := parseLogs w (toks.getD 2 "")
  let k := w.key p
  match w.rputFail.find? (fun (x : Nat × Nat) => x.1 == k && x.2 > 0) with
  | some x =>
    -- the `_remoteHeads` Put of this round failed (injected): merged and indexed, but neither cached nor
    -- reported: what the round brought is not owed after a restart until a later round succeeds
    let s := w.store p
    let s' := s.loadEndPutFailed w.acl logs
    let brought := (s'.log.entries.map (·.hash)).filter (fun h => !(s.log.entries.map (·.hash)).contains h)
    { w.setStore p s' with rputFail := (k, x.2 - 1) :: w.rputFail.filter (fun (y : Nat × Nat) => y.1 != k),
                           unacked := brought ++ w.unacked,
                           -- (the progress events of the fetches had already moved the status; the final update is skipped)
                           resync := k :: w.resync }
  | none => w.setStore p ((w.store p).loadEnd w.acl logs)

/-- the heads of the announcement being handled, with the tampered ones (`eN!`) marked -/
def World.opHeads (w : World) : Option (List Entry) :=
  let mk (names : List String) : List Entry := names.filterMap (fun n =>
    (w.entry (entryNum n)).map (fun e => if n.endsWith "!" then { e with hashOk := false, sigOk := false } else if n.endsWith "~" then { e with hashOk := false } else e))
  match w.pending.headD "" with
  | "inject" => some (mk (commaList (arg w.pending "heads")))
  | "sync" => w.syncSrc.map (fun (q, _) => sortedHeads (w.store q).log)
  | "pubdeliver" | "exchange" => w.msgHeads.map (fun hs => w.entriesOf hs)
  | _ => none

/-- what the replicator model needs to know about a hash: its links (`next ++ refs`), whether `Join`
accepts it, whether it was written for another log -/
def World.replNet (w : World) (h : Nat) : Repl.Info :=
  match w.entry h with
  | some e => { links := e.next ++ e.refs, valid := acceptable w.acl.canAppend e, foreign := e.logId != w.curDb + 1 || !e.hashOk }
  | none => { links := [] }

def World.replOf (w : World) (k : Nat) : Repl.St :=
  match w.repls.find? (fun (x : Nat × Repl.St) => x.1 == k) with | some x => x.2 | none => { sem := 32 }

def World.setRepl (w : World) (k : Nat) (s : Repl.St) : World :=
  { w with repls := (k, s) :: w.repls.filter (fun (x : Nat × Repl.St) => x.1 != k) }

def World.ctxId (w : World) (name : String) : World × Nat :=
  if name == "live" then (w, 0) else
  match w.ctxIds.find? (fun (x : String × Nat) => x.1 == name) with
  | some x => (w, x.2)
  | none => let n := w.ctxIds.length + 1; ({ w with ctxIds := (name, n) :: w.ctxIds }, n)

/-- `rev p <step> …`: one step of p's replicator, replayed through `Model/Replicator.lean` -/
def World.onRev (w : World) (toks : List String) : World :=
  let p := peerNum (toks.getD 1 "")
  let kind := toks.getD 2 ""
  let k := w.key p
  if w.revBlind.contains k then { w with revSkipped := w.revSkipped + 1 } else
  let (w, ctx) := match arg? toks "ctx" with | some c => w.ctxId c | none => (w, 0)
  let r := w.replOf k
  -- at the start of a batch of steps the model's view of the oplog catches up with the store model
  -- (local writes and reloads change the oplog without the replicator)
  let r := if w.inRev then r else
    let held := (w.store p).log.entries.map (·.hash)
    { r with log := r.log ++ held.filter (fun h => !r.log.contains h) }
  let h := if kind == "load" || kind == "cancel" || kind == "deliver" then 0 else entryNum (toks.getD 3 "")
  let heads := if kind == "load" then namesToNums (arg toks "heads") else []
  let w := { w with inRev := true }
  let dfr : Nat := match w.deferredDeliver.find? (fun (x : Nat × Nat) => x.1 == k) with | some x => x.2 | none => 0
  let setDfr (w : World) (n : Nat) : World :=
    { w with deferredDeliver := (k, n) :: w.deferredDeliver.filter (fun (x : Nat × Nat) => x.1 != k) }
  if kind == "deliver" && r.pending.isEmpty then setDfr (w.setRepl k r) (dfr + 1) else
  match revStep w.replNet r kind ctx h heads with
  | .ok r' =>
    -- deliveries recorded ahead of the step that emitted them
    let rec catchUp (fuel : Nat) (r : Repl.St) (n : Nat) : Repl.St × Nat :=
      match fuel with
      | 0 => (r, n)
      | f+1 => if n > 0 && !r.pending.isEmpty then catchUp f (Repl.step w.replNet r .deliver) (n - 1) else (r, n)
    let (r'', n) := catchUp (dfr + 1) r' dfr
    setDfr (w.setRepl k r'') n
  | .bad r' msg => (w.setRepl k r').fail "corr" "rev" s!"peer {p}: {msg}"

/-- `loadq p <heads>`: what `Sync` handed to the replicator, compared with the model of `Sync`
(`syncHeads`: complete heads the access controller admits; nothing if a head's hash does not match) -/
def World.onLoadQ (w : World) (toks : List String) : World :=
  let p := peerNum (toks.getD 1 "")
  let impl := namesToNums (toks.getD 2 "-")
  let k := w.key p
  let before := match w.announced.find? (fun (x : Nat × List Nat) => x.1 == k) with | some x => x.2 | none => []
  let w := { w with announced := (k, before ++ impl.filter (fun h => !before.contains h)) :: w.announced.filter (fun (x : Nat × List Nat) => x.1 != k) }
  if w.nDb != 1 then w else
  match w.opHeads with
  | none => w
  | some hs =>
    let raw : List RawHead := hs.map (fun e => { entry := e })
    -- `LoadMoreFrom` hands its entries to the replicator as they are (no `Sync`)
    if w.pending.headD "" == "inject" && arg w.pending "route" == "loadmore" then
      (if hs.map (·.hash) != impl then w.fail "corr" "loadq" s!"peer {p}: LoadMoreFrom hands {showNums impl} to the replicator, given {showNums (hs.map (·.hash))}" else w)
    else
    match syncHeads w.acl (w.curDb + 1) raw [] with
    | SyncOutcome.load es =>
      let model := es.map (·.hash)
      if model != impl then w.fail "corr" "loadq" s!"peer {p}: Sync hands {showNums impl} to the replicator, model {showNums model}" else w
    | _ => w.fail "corr" "loadq" s!"peer {p}: Sync hands {showNums impl} to the replicator, the model refuses the message"

def World.onSynced (w : World) (toks : List String) : World :=
  let p := peerNum (toks.getD 1 "")
  let w := if arg toks "quiesce" != "true" then w.fail "C11" "quiesce" s!"peer {p} did not become quiescent after sync" else w
  if w.pending.headD "" == "inject" then
    -- manual Sync of crafted heads: the pre-check loop of `Sync` decides the returned error
    let heads := (commaList (arg w.pending "heads")).filterMap (fun n =>
      (w.entry (entryNum n)).map (fun e => if n.endsWith "!" then { e with hashOk := false, sigOk := false } else if n.endsWith "~" then { e with hashOk := false } else e))
    let model := syncPrecheck w.acl (w.curDb + 1) heads
    let impl := toks.getD 2 ""
    if (model == .ok) != (impl == "ok") then
      w.fail "corr" "sync" s!"peer {p}: Sync({arg w.pending "heads"}) model {model}, implementation {impl}"
    else w
  else w

def parseStatus (s : String) : Int × Int :=
  match s.splitOn "/" with
  | [a, b] => (parseInt a, parseInt b)
  | _ => (0, 0)

def cacheField (s : String) : Option (List Nat) := if s == "none" then none else some (namesToNums s)

/-- ancestry (through `next`, within the declared entries) of a set of hashes; fuel = #entries -/
def World.ancestry (w : World) (roots : List Nat) : List Nat :=
  let rec go (fuel : Nat) (frontier acc : List Nat) : List Nat :=
    match fuel with
    | 0 => acc
    | f+1 =>
      let new := (frontier.filter (fun h => !acc.contains h)).eraseDups
      if new.isEmpty then acc else
      let acc := acc ++ new
      go f ((w.entriesOf new).flatMap (·.next)) acc
  go (w.entries.size + 1) roots []

def parseAcl (aclS : String) : Acl :=
  if aclS == "*" then { wildcard := true } else { ids := (commaList aclS).map peerNum }

def World.useDb (w : World) (k : Nat) : World :=
  { w with curDb := k, acl := ((w.dbAcls.find? (·.1 == k)).map (·.2)).getD w.acl }

/-- two distinct entries with the same (Lamport time, writer): the dependency's default sort is
order-dependent on them (C01's stated assumption excludes it; an identity that writes on a store that
has not loaded its own head — after `LoadFromSnapshot` of an older snapshot — produces one) -/
def hasTie (es : List Entry) : Bool :=
  es.any (fun a => es.any (fun b => a.hash != b.hash && a.time == b.time && a.cid == b.cid))

def World.onObs1 (w : World) (toks : List String) : World :=
  let p := peerNum (toks.getD 1 "")
  if toks.getD 2 "" == "closed" then w else
  let w := { w with nObs := w.nObs + 1 }
  let s := w.store p
  let iv := namesToNums (arg toks "values")
  let ih := namesToNums (arg toks "heads")
  let ilen := natOr (arg toks "len") 0
  let idxS := arg toks "idx"
  let ist := parseStatus (arg toks "status")
  let ilocal := cacheField (arg toks "local")
  let iremote := cacheField (arg toks "remote")
  let prev := w.obsOf p
  let lim : Option (Nat × Int × List Nat) := w.limited.find? (fun x => x.1 == w.key p)
  -- with tied entries the ORDER of the listing is not determined: orders are compared as sets
  let tied := hasTie (w.entriesOf iv)
  let same (a b : List Nat) : Bool := if tied then sortNums a == sortNums b else a == b
  -- C15: what a load with a limit must show
  let w := match lim with
    | none => w
    | some (_, n, full) =>
      let total := full.length
      if n ≤ 0 then
        if !same iv full then w.fail "C15" "all" s!"peer {p}: Load({n}) lists {showNums iv}, the persisted log is {showNums full}" else w
      else
        let want := min n.toNat total
        let w := if iv.length != want then w.fail "C15" "count" s!"peer {p}: Load({n}) lists {iv.length} entries ({showNums iv}), expected {want} of {showNums full}" else w
        let w := if !tied && !isSubseq iv full then w.fail "C15" "order" s!"peer {p}: Load({n}) lists {showNums iv}, not in the order of {showNums full}" else w
        let w := match full.getLast? with
          | some newest => if want > 0 && !iv.contains newest then w.fail "C15" "newest" s!"peer {p}: Load({n}) lists {showNums iv} without the newest entry e{newest}" else w
          | none => w
        let single := ((w.entriesOf full).map (fun (e : Entry) => e.cid)).eraseDups.length ≤ 1
        if single && !tied && iv != full.drop (total - want) then
          w.fail "C15" "recent" s!"peer {p}: single-writer log, Load({n}) lists {showNums iv}, the {want} most recent are {showNums (full.drop (total - want))}" else w
  -- C05 (recover): the implementation's own listing after a clean restart and an unlimited load
  -- contains everything it listed at rest, or acknowledged, before the restart
  let w := match w.mustRecover.find? (fun (x : Nat × List Nat) => x.1 == w.key p) with
    | none => w
    | some (_, must) =>
      let missing := must.filter (fun n => !iv.contains n)
      if missing.isEmpty then w else
        w.fail "C05" "recover" s!"peer {p}: after restart and Load(-1) the entries {showNums (sortNums missing)}, listed or acknowledged before the restart, are gone (listing: {showNums iv})"
  let w := { w with mustRecover := w.mustRecover.filter (fun (x : Nat × List Nat) => x.1 != w.key p) }
  -- (only the first observation after the restart is compared with the persisted log)
  let w := { w with limited := w.limited.filter (fun x => x.1 != w.key p) }
  -- a limited load of a multi-head log may keep different older entries than the model's unbounded fetch:
  -- the model then continues from the implementation's listing
  let partialLoad := match lim with | some (_, n, full) => n > 0 && n.toNat < full.length | none => false
  let w := match lim with
    | some (_, n, _) => if partialLoad then { w with partialStores := w.key p :: w.partialStores.filter (· != w.key p) }
                        else if n ≤ 0 && !w.liveLoaded.contains (w.key p) then { w with partialStores := w.partialStores.filter (· != w.key p) } else w
    | none => w
  -- a partially loaded store stays outside the model's exact tracking for as long as it lives (what it
  -- writes or replicates lands in a log with holes, where go-ipfs-log keeps link indices of the trimmed
  -- entries): the model continues from the implementation's state, cache included; the L1 predicates
  -- (recovery at the next unlimited load, cached heads cover the log, limits) still judge it
  let isPartial := w.partialStores.contains (w.key p)
  let (w, s) := if partialLoad || isPartial then
      let L : Log := logOfEntries (w.curDb + 1) (w.entriesOf iv)
      let s' := { s with log := { L with heads := w.entriesOf ih }, idx := parseKVs idxS, status := { progress := ist.1, max := ist.2 } }
      let s' := if isPartial && !partialLoad then { s' with localHeads := cacheField (arg toks "local"), remoteHeads := cacheField (arg toks "remote") } else s'
      (w.setStore p s', s')
    else (w, s)
  let busy := w.inflight.contains (w.key p)
  let w := if busy then w else
    -- (an entry appended by a write that then failed was never acknowledged and nothing durable points
    -- to it: it is not owed after a restart)
    let ivd := iv.filter (fun n => !w.unacked.contains n)
    w.setDurable (w.key p) (ivd ++ (w.durableOf (w.key p)).filter (fun n => !ivd.contains n))
  -- a log with missing ancestors (a fetch failed): the order in which the store handled the
  -- progress events and the batch is the scheduler's, and the status depends on it: adopt it
  let holes := !(w.entriesOf iv).all (fun e => e.next.all (fun h => iv.contains h))
  let late := w.lateLoad.contains (w.key p) && ist == ((ilen : Int), (ilen : Int)) &&
    s.status.progress ≤ (ilen : Int) && s.status.max ≤ (ilen : Int) && (s.status.progress, s.status.max) != ist
  let w := if late then { w with lateLoad := w.lateLoad.filter (· != w.key p) } else w
  let (w, s) := if w.resync.contains (w.key p) || busy || holes || late then
      let s' := { s with status := { progress := ist.1, max := ist.2 } }
      ({ w.setStore p s' with resync := w.resync.filter (· != w.key p) }, s')
    else (w, s)
  -- correspondence
  let mv := (values s.log).map (·.hash)
  let w := if !same mv iv then w.fail "corr" "values" s!"peer {p}: model {showNums mv}, implementation {showNums iv}" else w
  let mh := (sortedHeads s.log).map (·.hash)
  let w := if !same mh ih then w.fail "corr" "heads" s!"peer {p}: model {showNums mh}, implementation {showNums ih}" else w
  let w := if s.log.entries.length != ilen && !isPartial then w.fail "corr" "len" s!"peer {p}: model {s.log.entries.length}, implementation {ilen}" else w
  let w := if s.localHeads != ilocal then w.fail "corr" "local" s!"peer {p}: model {s.localHeads.map showNums}, implementation {arg toks "local"}" else w
  let w := if s.remoteHeads != iremote then w.fail "corr" "remote" s!"peer {p}: model {s.remoteHeads.map showNums}, implementation {arg toks "remote"}" else w
  let w := if (s.status.progress, s.status.max) != ist then w.fail "corr" "status" s!"peer {p}: model {s.status.progress}/{s.status.max}, implementation {arg toks "status"}" else w
  let ients := w.entriesOf iv
  let w := match w.dbKind with
    | .log =>
      let il := namesToNums idxS
      -- (an entry appended by a write that then failed — its head could not be persisted — is in the log
      -- but reaches the view only with the next successful update)
      -- (and an entry whose payload is not an operation at all is not listed — nothing else is affected:
      -- C12 when the log holds one)
      let ivl := iv.filter (fun n => !w.badOps.contains n)
      let prop := if ivl.length != iv.length then "C12" else "C08"
      let w := if il != ivl && il != ivl.filter (fun n => !w.unacked.contains n) then w.fail prop "list" s!"peer {p}: List(-1) {showNums il} differs from the log listing {showNums ivl}" else w
      w
    | _ =>
      let iidx := parseKVs idxS
      let w := if showKV s.idx != showKV iidx then w.fail "corr" "idx" s!"peer {p}: model {showKV s.idx}, implementation {showKV iidx}" else w
      -- C06 / C07: the index equals the replay of the implementation's own listing
      let want := if w.dbKind == Kind.kv then lwwReplay ients else docReplay ients
      let prop := if w.dbKind == Kind.kv then "C06" else "C07"
      if showKV want != showKV iidx then
        let w := w.fail prop "idx" s!"peer {p}: index {showKV iidx} but replay of its log {showNums iv} gives {showKV want}"
        -- C05: what a Load has merged is readable when it returns, with or without an error (review of the
        -- F32 repair: a Load that failed on one head returned before the view was rebuilt)
        let w := if w.justLoaded.contains (w.key p) then
            w.fail "C05" "readable" s!"peer {p}: after restart and Load the log lists {showNums iv} but the view is {showKV iidx} (replay: {showKV want})"
          else w
        -- C12: an entry whose payload is not an operation the view knows changes nothing and stops nothing:
        -- what is written or merged afterwards must still show
        let w := if w.hadRaw then
            w.fail "C12" "view" s!"peer {p}: after an entry with a hand-made payload the view is {showKV iidx}, the replay of the log {showNums iv} is {showKV want}"
          else w
        -- C17: after concurrent writers have all returned, their writes must be visible in the view
        if w.hadConcurrent then
          w.fail "C17" "visible" s!"peer {p}: after concurrent writes returned the view is {showKV iidx}, the replay of the log {showNums iv} is {showKV want}"
        else w
      else w
  -- C08: append-only, stable order
  let w := if prev.seen && !isSubseq prev.values iv then
      w.fail "C08" "stable" s!"peer {p}: earlier listing {showNums prev.values} is not a subsequence of {showNums iv}" else w
  -- C06/C08 happens-before: everything an entry had seen is listed before it
  let w := ients.foldl (fun w e =>
      e.next.foldl (fun w h =>
        match idxOf iv h, idxOf iv e.hash with
        | some i, some j => if i < j then w else w.fail "C08" "causal" s!"peer {p}: e{h} (seen by e{e.hash}) is listed after it"
        | _, _ => w) w) w
  -- C03 / C04: only authorised, well-addressed entries of this database are visible
  let w := ients.foldl (fun w e =>
      let w := if !(w.acl.canAppend e) || e.key != e.ident || !e.identOk || !e.sigOk then
        w.fail "C03" "member" s!"peer {p}: e{e.hash} (ident {e.ident}, key {e.key}) is visible but not authored by an authorised writer" else w
      -- (C04's quantifier covers every single-field mutation of a valid entry's wire form, the identity
      -- fields and the signature included: a mutated form must never be listed)
      if e.logId != w.curDb + 1 || !e.hashOk || !e.sigOk || !e.identOk then w.fail "C04" "member" s!"peer {p}: e{e.hash} is visible but tampered (content, signature or identity block) or written for another database" else w) w
  let w := if (iv.length != ilen && !isPartial) || !(iv.all (fun h => h != 0)) then w.fail "C04" "shape" s!"peer {p}: Len()={ilen} but {iv.length} entries listed ({arg toks "values"})" else w
  -- C01: same entry set ⇒ same state
  let key := sortNums iv
  let stateS := s!"values={showNums iv} heads={showNums ih} idx={idxS}"
  let w := match w.states.find? (fun (x : List Nat × String) => x.1 == key) with
    | some (_, st) => if st != stateS && !tied then w.fail "C01" "state" s!"peer {p}: same entries, different state: [{stateS}] vs [{st}]" else w
    | none => { w with states := (key, stateS) :: w.states }
  -- C19: never regresses; at rest with a complete log progress = max ∈ [maxTime, len]
  let w := if prev.seen && (ist.1 < prev.status.1 || ist.2 < prev.status.2) then
      w.fail "C19" "mono" s!"peer {p}: status went from {prev.status.1}/{prev.status.2} to {ist.1}/{ist.2}" else w
  -- complete: nothing an entry refers to is missing, and every head handed to the replicator arrived
  let told := match w.announced.find? (fun (x : Nat × List Nat) => x.1 == w.key p) with | some x => x.2 | none => []
  let complete := ients.all (fun e => e.next.all (fun h => iv.contains h)) && told.all (fun h => iv.contains h)
  let maxT : Int := ients.foldl (fun m e => max m (e.time : Int)) 0
  let w := if complete && !busy && !(ist.1 == ist.2 && maxT ≤ ist.2 && ist.2 ≤ (ilen : Int)) then
      w.fail "C19" "rest" s!"peer {p}: at rest with a complete log of {ilen} entries (max time {maxT}) status is {ist.1}/{ist.2}" else w
  -- C05 (covers): the cached heads' ancestry covers the whole log
  let roots := (ilocal.getD []) ++ (iremote.getD [])
  let anc := w.ancestry roots
  let w := if !(iv.all (fun h => anc.contains h || w.unacked.contains h)) then
      w.fail "C05" "covers" s!"peer {p}: cached heads {showNums roots} do not cover the log {showNums iv}" else w
  -- C02-ish: after a sync from q with nothing rejected, p holds everything q held
  -- C09: a database that was not operated on shows no change (contents, status, emitted events)
  let evS := (arg? toks "events").getD "-"
  -- C09: every store of the instance emits on one bus: a store event has to say which database it is about
  let w := match arg? toks "orphan" with
    | some o => w.fail "C09" "events" s!"peer {p}: store events that name no database were emitted on the shared bus ({o}): a listener of one database cannot tell them from another database's"
    | none => w
  let w := match arg? toks "db", w.lastOpDb with
    | some _, some opDb =>
      if prev.seen && opDb != w.curDb && (prev.values != iv || prev.status != ist || prev.events != evS || showKV prev.idx != showKV (parseKVs idxS)) then
        w.fail "C09" "isolation" s!"peer {p} database {w.curDb} changed while only database {opDb} was used: values {showNums prev.values}→{showNums iv} status {prev.status.1}/{prev.status.2}→{ist.1}/{ist.2} events {prev.events}→{evS}"
      else w
    | _, _ => w
  w.setObs p { values := iv, idx := parseKVs idxS, status := ist, seen := true, events := evS }

def World.onObs (w : World) (toks : List String) : World :=
  match arg? toks "db" with
  | some k =>
    let cur := w.curDb
    ((w.useDb (natOr k 0)).onObs1 toks).useDb cur
  | none => w.onObs1 toks

/-- announcements in multi-database scenarios: topic, address and entries must be one database's -/
def World.onPub (w : World) (toks : List String) : World :=
  if w.nDb ≤ 1 || toks.getD 2 "" == "none" then w else
  let dbOf (s : String) : Nat := if s.startsWith "db" then natOr (s.drop 2).toString 0 else 9999
  let t := dbOf (arg toks "topic")
  let a := dbOf (arg toks "addr")
  let heads := w.entriesOf (namesToNums (arg toks "heads"))
  let w := if t != a then w.fail "C09" "channel" s!"peer {toks.getD 1 ""} published database {a}'s address on database {t}'s topic" else w
  heads.foldl (fun w e => if e.logId != t + 1 then
      w.fail "C09" "channel" s!"peer {toks.getD 1 ""} sent e{e.hash} (database {e.logId - 1}) on database {t}'s topic" else w) w

/-- eventlog range query -/
def World.onResult (w : World) (toks : List String) : World :=
  let p := peerNum (toks.getD 1 "")
  let r := toks.getD 2 ""
  let q := w.pending
  let optN (k : String) : Option Nat := (arg? q k).map entryNum
  let amount : Option Int := match arg? q "amount" with
    | none => none | some "unset" => none | some a => some (parseInt a)
  let o : StreamOpts := { gt := optN "gt", gte := optN "gte", lt := optN "lt", lte := optN "lte", amount := amount }
  if r == "err" then w.fail "C08" "query" s!"peer {p}: query {" ".intercalate q} failed" else
  let impl := namesToNums r
  let s := w.store p
  -- an entry whose payload is not an operation at all is not part of what an event log lists (F48: the
  -- listing used to END at such an entry, silently); a bound is a POSITION in the log and may be such an
  -- entry (review of F48: looked up among the operations only, it was not found and the window started
  -- at the first entry)
  let isOp : Entry → Bool := fun e => !w.badOps.contains e.hash
  let model := (queryWinOps isOp (values s.log) o).map (·.hash)
  let w := if model != impl then w.fail "corr" "result" s!"peer {p}: query model {showNums model}, implementation {showNums impl}" else w
  -- C08: exact window of the implementation's own listing (C12 when the log holds such an entry: what
  -- a payload that is not an operation may change is nothing)
  let all := w.entriesOf (w.obsOf p).values
  let want := (windowSpecOps isOp all o).map (·.hash)
  let prop := if all.any (fun e => !isOp e) then "C12" else "C08"
  if want != impl then w.fail prop "window" s!"peer {p}: {" ".intercalate (q.drop 2)} over {showNums (all.map (·.hash))} (not operations: {showNums (sortNums w.badOps)}) returned {showNums impl}, window is {showNums want}" else w

def World.onGot (w : World) (toks : List String) : World :=
  let p := peerNum (toks.getD 1 "")
  let want := entryNum (w.pending.getD 2 "")
  let r := toks.getD 2 ""
  -- an entry whose payload is not an operation has no operation to hand out: Get says so (it used to
  -- answer, without an error, with the NEXT operation of the log: review of the F60 repair)
  if w.badOps.contains want then
    if r == "err" then w else w.fail "C12" "get" s!"peer {p}: Get(e{want}) of an entry that is not an operation answered with {r}"
  else
  if r == "err" then w.fail "C08" "get" s!"peer {p}: Get(e{want}) failed"
  else if entryNum r != want then w.fail "C08" "get" s!"peer {p}: Get(e{want}) returned {r}" else w

def World.onDocGot (w : World) (toks : List String) : World :=
  let p := peerNum (toks.getD 1 "")
  let okS := toks.getD 2 ""
  let res := parseKVs (toks.getD 3 "-")
  let n := natOr (arg toks "n") 0
  let q := w.pending
  let implIdx := (w.obsOf p).idx
  let modelIdx := (w.store p).idx
  if okS != "ok" then w.fail "C07" "get" s!"peer {p}: {" ".intercalate q} failed" else
  let sortS (l : List String) : List String := (KV.canon (l.map (fun k => (k, "")))).map (·.1)
  let expectKeys (idx : KV) : List String :=
    if q.headD "" == "docget" then
      docGetKeys idx (unhex (q.getD 2 "")) (arg q "ci" == "1") (arg q "partial" == "1")
    else
      let pred := q.getD 2 ""
      idx.keys.filter (fun k =>
        if pred == "all" then true else if pred == "none" then false
        else if pred.startsWith "idhas:" then strContains k (unhex (pred.drop 6).toString)
        else if pred.startsWith "vlen>" then
          -- the value is the hex of the JSON document {"_id":k,"v":val}: len(val) = bytes − 17 − len(k)
          let v := (KV.get idx k).getD ""
          (v.length / 2 : Nat) - 17 - k.length > natOr (pred.drop 5).toString 0
        else false)
  let gotKeys := sortS (res.map (·.1))
  let w := if sortS (expectKeys modelIdx) != gotKeys then
      w.fail "corr" "docget" s!"peer {p}: {" ".intercalate q}: model {sortS (expectKeys modelIdx)}, implementation {gotKeys}" else w
  let w := if sortS (expectKeys implIdx) != gotKeys || n != gotKeys.length then
      w.fail "C07" "get" s!"peer {p}: {" ".intercalate q} returned {gotKeys} (n={n}), matching documents are {sortS (expectKeys implIdx)}" else w
  -- and each returned document is the indexed one
  res.foldl (fun w kv => if KV.get implIdx kv.1 != some kv.2 then
      w.fail "C07" "get" s!"peer {p}: returned document for key {kv.1} differs from the index" else w) w

/-- entries (as an ordered map) reachable from `h` through next and refs among the declared entries:
the unbounded Fetcher (`length = -1`) with every block available -/
def World.fetchAll (w : World) (h : Nat) : OMap :=
  let rec go (fuel : Nat) (frontier acc : List Nat) : List Nat :=
    match fuel with
    | 0 => acc
    | f+1 =>
      let new := (frontier.filter (fun h => !acc.contains h && (w.entry h).isSome)).eraseDups
      if new.isEmpty then acc else
      go f ((w.entriesOf new).flatMap (fun e => e.next ++ e.refs)) (acc ++ new)
  w.entriesOf (go (w.entries.size + 1) [h] [])

/-- the same with the blocks nobody holds any more left out: the walk stops at them -/
def World.fetchHeld (w : World) (h : Nat) : OMap :=
  let rec go (fuel : Nat) (frontier acc : List Nat) : List Nat :=
    match fuel with
    | 0 => acc
    | f+1 =>
      let new := (frontier.filter (fun h => !acc.contains h && (w.entry h).isSome && !w.gone.contains h)).eraseDups
      if new.isEmpty then acc else
      go f ((w.entriesOf new).flatMap (fun e => e.next ++ e.refs)) (acc ++ new)
  w.entriesOf (go (w.entries.size + 1) [h] [])

def World.onMsg (w : World) (toks : List String) : World :=
  if toks.getD 1 "" == "none" then { w with msgHeads := none } else
  let heads := namesToNums (arg toks "heads")
  let w := { w with msgHeads := some heads }
  -- exchange-on-join sends the cached local ++ remote heads
  if w.pending.headD "" == "exchange" then
    let p := peerNum (w.pending.getD 1 "")
    let s := w.store p
    let model := (s.localHeads.getD []) ++ (s.remoteHeads.getD [])
    if model != heads then w.fail "corr" "exchange" s!"peer {p}: model sends heads {showNums model}, implementation {showNums heads}" else w
  else w

def World.onDelivered (w : World) (toks : List String) : World :=
  let q := peerNum (toks.getD 1 "")
  let r := toks.getD 2 ""
  if r == "dropped" || r == "nosub" then w else
  if toks.contains "unserved" then
    (if w.hadClose then
      w.fail "C18" "scope" s!"peer {q}: after a store was closed (and Close called again on the old handle) the instance no longer hands direct-channel heads to the store that is open now"
     else
      w.fail "C12" "served" s!"peer {q}: the instance no longer takes messages from its direct channel (an earlier message stopped the goroutine that serves it)") else
  if arg toks "quiesce" != "true" then w.fail "C11" "quiesce" s!"peer {q} did not become quiescent after a delivered message" else w

/-- the whole instance of `p` went down: its stores of the OTHER databases reload (unlimited) too -/
def World.reloadOtherDbs (w : World) (p : Nat) : World :=
  let cur := w.curDb
  let w := (List.range w.nDb).foldl (fun w k =>
    if k == cur then w else
    let w := w.useDb k
    if !(w.stores.any (fun (x : Nat × Store) => x.1 == w.key p)) then w else
    let s := (w.store p).reopened
    match s.loadChecked w.acl w.fetchAll (-1) with
    | .ok s' => { w.setStore p s' with resync := w.key p :: w.resync, lastObs := w.lastObs.filter (·.1 != w.key p) }
    | .error _ => w) w
  w.useDb cur

def World.onRestarted (w : World) (toks : List String) : World :=
  let p := peerNum (toks.getD 1 "")
  let r := toks.getD 2 ""
  let cancelled := w.pending.contains "ctx=cancelled"
  let amount : Int := match w.pending.getD 2 "" with | "" => -1 | a => if a.startsWith "ctx=" then -1 else parseInt a
  -- the limit `Load` works with: the call's, or - when that is not positive - the store's maximum-history
  -- option (`loadAmount`, tied to the Go text: GenLoad)
  let amount := loadAmount amount w.maxHist
  let w := if arg toks "identity" != "true" then w.fail "C05" "identity" s!"peer {p} has a different identity after restart" else w
  let w := { w with justLoaded := w.key p :: w.justLoaded }
  let w := if w.nDb > 1 then w.reloadOtherDbs p else w
  -- new instance, new replicators: nothing queued, nothing remembered
  let w := { w with repls := w.repls.filter (fun (x : Nat × Repl.St) => x.1 % 1000 != p) }
  let s := (w.store p).reopened
  -- `noload`: the store is opened and not loaded (a producer that only appends): empty log, the cache as it was
  if w.pending.contains "noload" then
    { w.setStore p s with lastObs := w.lastObs.filter (·.1 != w.key p),
                          mustRecover := w.mustRecover.filter (fun (x : Nat × List Nat) => x.1 != w.key p),
                          limited := w.limited.filter (·.1 != w.key p) } else
  -- the whole persisted log: everything reachable from the cached heads
  let full := match s.load w.acl w.fetchAll (-1) with
    | .ok sf => (values sf.log).map (·.hash)
    | .error _ => []
  let w := { w with lastObs := w.lastObs.filter (·.1 != w.key p),
                    liveLoaded := w.liveLoaded.filter (· != w.key p),
                    lateLoad := w.key p :: w.lateLoad.filter (· != w.key p),
                    limited := (w.key p, amount, full) :: w.limited.filter (·.1 != w.key p) }
  let dur := w.durableOf (w.key p)
  let w := if amount ≤ 0 && !w.faulty && r == "ok" then { w with mustRecover := (w.key p, dur) :: w.mustRecover.filter (fun (x : Nat × List Nat) => x.1 != w.key p) }
           else { w with mustRecover := w.mustRecover.filter (fun (x : Nat × List Nat) => x.1 != w.key p) }
  -- (what was listed or acknowledged before a LIMITED load stays owed: the next unlimited load must
  -- bring it back, whatever was written or replicated on the partially loaded store in between)
  -- a Load whose context has already ended cannot have read the persisted log: it must say so
  -- (F32: it used to report success over an empty log); the store stays opened and unloaded
  if cancelled && (s.loadChecked w.acl (fun _ => []) amount matches .error _) then
    let w := { w.setStore p s with limited := w.limited.filter (·.1 != w.key p),
                                   mustRecover := w.mustRecover.filter (fun (x : Nat × List Nat) => x.1 != w.key p),
                                   resync := w.key p :: w.resync }
    if r == "ok" then w.fail "C05" "load" s!"peer {p}: Load under a context that had already ended reported success; {full.length} persisted entries were not loaded"
    else w
  else
  -- a cached head whose block nobody holds any more (and the lookup says so at once): Load fails, and
  -- what the OTHER heads led to is readable all the same
  let lost := w.unreachFail && !w.gone.isEmpty
  if lost && (s.loadChecked w.acl w.fetchHeld amount matches .error _) then
    let s' := s.loadReadable w.acl w.fetchHeld amount
    let w := { w.setStore p s' with limited := w.limited.filter (·.1 != w.key p),
                                    mustRecover := w.mustRecover.filter (fun (x : Nat × List Nat) => x.1 != w.key p),
                                    resync := w.key p :: w.resync }
    if r == "ok" then w.fail "C05" "load" s!"peer {p}: Load reported success although the blocks of cached heads are gone"
    else w
  else
  match s.loadChecked w.acl (if lost then w.fetchHeld else w.fetchAll) amount with
  | .ok s' =>
    let w := { w.setStore p s' with resync := w.key p :: w.resync }
    if r != "ok" then w.fail (if amount == -1 then "C05" else "C15") "load" s!"peer {p}: reopening and Load({amount}) failed ({r})" else w
  | .error e =>
    let w := w.setStore p s
    if r == "ok" then w.fail "corr" "load" s!"peer {p}: model Load({amount}) = {e}, implementation ok"
    else w.fail "C15" "load" s!"peer {p}: Load({amount}) {r} (model: {e})"

def World.step (w : World) (line : String) : World :=
  let w := { w with lineNo := w.lineNo + 1 }
  let toks := fields line
  let w := if toks.headD "" == "rev" then w else { w with inRev := false }
  match toks.headD "" with
  | "rev" => w.onRev toks
  | "scn" =>
    let w' := World.onScn w toks
    { w' with lineNo := w.lineNo, out := w.out }
  | "peer" => { w with ranks := (peerNum (toks.getD 1 ""), natOr (arg toks "rank") 0) :: w.ranks }
  | "entry" =>
    let n := entryNum (toks.getD 1 "")
    if n != w.entries.size + 1 then w.fail "corr" "entry" s!"entry numbering: got {toks.getD 1 ""}, expected e{w.entries.size + 1}"
    else
      let e := parseEntry toks n
      let lg := arg toks "log"
      let e := if lg == "db" then { e with logId := w.curDb + 1 }
               else if lg.startsWith "db" then { e with logId := natOr (lg.drop 2).toString 0 + 1 } else { e with logId := 9999 }
      { w with entries := w.entries.push e, badOps := if toks.contains "op=BAD" then n :: w.badOps else w.badOps }
  | "op" =>
    let w := { w with pending := toks.drop 1 }
    let h := toks.getD 1 ""
    let w := if h != "obs" && h != "restart" then { w with justLoaded := [] } else w
    let w := if h == "failget" then { w with faulty := true } else if h == "okget" then { w with faulty := false } else w
    let w := if h == "forge" && (arg? toks "raw").isSome then { w with hadRaw := true } else w
    -- a new instance / a new handle has a new replicator: nothing queued, nothing remembered
    let w := if h == "restartsnap" || h == "reopenstore" || h == "restart" then
        let p := peerNum (toks.getD 2 "")
        { w with repls := w.repls.filter (fun (x : Nat × Repl.St) => x.1 % 1000 != p),
                 announced := w.announced.filter (fun (x : Nat × List Nat) => x.1 % 1000 != p) } else w
    -- a snapshot is loaded into a brand-new store: empty log, the cached heads kept; the resumed queue
    -- runs while the snapshot is joined, so its steps are not replayed against a log the trace cannot date
    let w := if h == "restartsnap" then
        let p := peerNum (toks.getD 2 "")
        { w.setStore p (w.store p).reopened with revBlind := w.key p :: w.revBlind } else w
    if h == "snapcross" then
      -- loading another database's snapshot is an operation on the store that loads it: nothing of the
      -- other database may appear there (C04 member predicate); its status may count what it read
      let p := peerNum (toks.getD 2 "")
      let to := natOr (toks.getD 4 "") 0
      { w with lastOpDb := some to, resync := (p + 1000 * to) :: w.resync }
    else if h == "usedb" then w.useDb (natOr (toks.getD 2 "") 0)
    else if h == "exchangeall" || h == "exchangeall-done" || h == "restart" then { w with lastOpDb := none }   -- touches every database of the peer
    else if ["put", "del", "add", "docput", "docdel", "docputall", "docputbatch", "sync", "pubdeliver", "exchange", "inject", "syncasync"].contains h then
      { w with lastOpDb := some w.curDb }
    else w
  | "opened" =>
    let k := natOr (arg toks "db") 0
    let kind := match arg w.pending "kind" with | "doc" => Kind.doc | "log" => Kind.log | _ => Kind.kv
    let w := { w with dbKinds := (k, kind) :: w.dbKinds, dbAcls := (k, parseAcl (arg w.pending "acl")) :: w.dbAcls, nDb := k + 1 }
    w.useDb k
  | "pub" => w.onPub toks
  | "ack" => w.onAck toks
  | "ackfail" => w.onAckFail toks
  | "ackbatch" => w.onAckBatch toks
  | "heads" => w.onHeads toks
  | "loadend" => w.onLoadEnd toks
  | "liveloaded" =>
    -- `Load(n)` on the store as it is ("load more"): from here on the store is followed from the
    -- implementation's own state (as after a limited load at opening); what matters is that it returned
    let p := peerNum (toks.getD 1 "")
    -- what the next observation must list (C15): the newest `n` entries of the persisted log — the
    -- log reachable from the cached heads — whatever part of it the store held before the call (F36)
    let n := loadAmount (parseInt (w.pending.getD 2 "-1")) w.maxHist
    let full := match (w.store p).reopened.load w.acl w.fetchAll (-1) with
      | .ok sf => (values sf.log).map (·.hash)
      | .error _ => []
    let w := if toks.getD 2 "" == "ok" && !w.faulty then
        { w with limited := (w.key p, (if n ≤ 0 then -1 else n), full) :: w.limited.filter (·.1 != w.key p) } else w
    let w := { w with lastObs := w.lastObs.filter (·.1 != w.key p),
                      partialStores := w.key p :: w.partialStores.filter (· != w.key p),
                      liveLoaded := w.key p :: w.liveLoaded.filter (· != w.key p),
                      resync := w.key p :: w.resync }
    if toks.getD 2 "" != "ok" then w.fail "C15" "load" s!"peer {p}: Load({w.pending.getD 2 ""}) on the open store reports {toks.getD 2 ""}" else w
  | "loadq" => w.onLoadQ toks
  | "rputfail" =>
    let k := w.key (peerNum (toks.getD 1 ""))
    -- (the round ends early at the failed put, before its status fix-up: the progress events of its entries
    -- may be handled after the store has gone quiet - under load, after an observation - and lift the
    -- status to len/len then; both values satisfy C19, the lift is accepted once, as after a Load)
    { w with rputFail := (k, natOr (toks.getD 2 "") 1) :: w.rputFail.filter (fun (y : Nat × Nat) => y.1 != k),
             lateLoad := k :: w.lateLoad.filter (· != k) }
  | "stats" =>
    -- C11: whenever the replicator is at rest every fetch slot is free again and nothing is counted as
    -- in progress (a slot that is never given back starves every later request once all are gone)
    if toks.getD 2 "" == "closed" then w else
    let n (k : String) : Nat := natOr (arg toks k) 0
    -- correspondence: the model replayed step by step has the same bookkeeping
    let p := peerNum (toks.getD 1 "")
    let w := match w.deferredDeliver.find? (fun (x : Nat × Nat) => x.1 == w.key p) with
      | some x => if x.2 > 0 then w.fail "corr" "rev" s!"peer {p}: the store handled {x.2} LoadEnd(s) the model never emitted" else w
      | none => w
    let w := (statsOf (w.replOf (w.key p))).foldl (fun w (kv : String × Nat) =>
      if (arg? toks kv.1).isSome && n kv.1 != kv.2 then
        w.fail "corr" "rev" s!"peer {p}: replicator bookkeeping `{kv.1}`: model {kv.2}, implementation {n kv.1}" else w) w
    let atRest := n "added" == 0 && n "fetching" == 0 && n "queue" == 0
    let w := if atRest && n "free" != n "of" then
        w.fail "C11" "slots" s!"peer {toks.getD 1 ""}: at rest only {n "free"} of {n "of"} fetch slots are free: aborted requests leak slots, and once none is left no request can fetch anything" else w
    if atRest && n "inprogress" != 0 then
      w.fail "C11" "slots" s!"peer {toks.getD 1 ""}: at rest {n "inprogress"} fetches are still counted as in progress" else w
  | "synced" => w.onSynced toks
  | "obs" => w.onObs toks
  | "result" => w.onResult toks
  | "got" => w.onGot toks
  | "docgot" => w.onDocGot toks
  | "final" =>
    -- C02: writes stopped, every link healed, every ordered pair exchanged heads: every replica holds
    -- every acknowledged write (and so, by C01, shows the same state)
    w.stores.foldl (fun w (p, _) => if p ≥ 1000 then w else
      let o := w.obsOf p
      if !o.seen then w else
      let missing := w.acked.filter (fun n => !o.values.contains n)
      if missing.isEmpty then w else
        w.fail "C02" "converge" s!"peer {p} lacks acknowledged writes {showNums (sortNums missing)} after the final exchange round") w
  | "syncing" =>
    let p := w.key (peerNum (toks.getD 1 ""))
    { w with inflight := p :: w.inflight.filter (· != p), resync := p :: w.resync.filter (· != p) }
  | "settled" =>
    let p := w.key (peerNum (toks.getD 1 ""))
    if arg toks "quiesce" == "true" then { w with inflight := w.inflight.filter (· != p), resync := p :: w.resync.filter (· != p) } else w
  | "final12" =>
    -- C12: after malformed traffic, later valid messages were still handled
    w.stores.foldl (fun w (p, _) => if p ≥ 1000 then w else
      let o := w.obsOf p
      if !o.seen then w else
      let missing := w.acked.filter (fun n => !o.values.contains n)
      if missing.isEmpty then w else
        w.fail "C12" "deaf" s!"peer {p} lacks {showNums (sortNums missing)}: valid messages after malformed ones were not handled") w
  | "cacks" =>
    -- concurrent writers: the entries were declared in log (= append) order just before this line
    let p := peerNum (toks.getD 1 "")
    let acks := commaList (arg toks "acks")
    let created := sortNums (acks.filter (· != "err") |>.map entryNum)
    let w := { w with hadConcurrent := true }
    let w := if acks.contains "err" then w.fail "C17" "ack" s!"peer {p}: a concurrent write failed" else w
    let w := if created.eraseDups.length != created.length then
        w.fail "C17" "distinct" s!"peer {p}: two concurrent writes were acknowledged with the same entry ({arg toks "acks"})" else w
    created.foldl (fun w n => { w with acked := n :: w.acked }.modelAdd p n) w
  | "final17" =>
    -- C17: after close, reopen and load every acknowledged concurrent write is still there
    w.stores.foldl (fun w (p, _) => if p ≥ 1000 then w else
      let o := w.obsOf p
      if !o.seen then w else
      let missing := w.acked.filter (fun n => !o.values.contains n)
      if missing.isEmpty then w else
        w.fail "C17" "lost" s!"peer {p} lost acknowledged writes {showNums (sortNums missing)} across restart") w
  | "final18" =>
    -- C18: the directory is reopenable with all acknowledged data: the peer's own acknowledged writes
    let p := peerNum (toks.getD 1 "")
    let o := w.obsOf p
    if !o.seen then w else
    let mine := w.acked.filter (fun n => match w.entry n with | some e => e.ident == p && e.logId == w.curDb + 1 | none => false)
    let missing := mine.filter (fun n => !o.values.contains n)
    if missing.isEmpty then w else
      w.fail "C18" "reopen" s!"peer {p}: after Close and reopen its acknowledged writes {showNums (sortNums missing)} are gone"
  | "final11" =>
    -- C11: after aborted requests, an uncancelled request for the same or newer heads made everything visible
    w.stores.foldl (fun w (p, _) => if p ≥ 1000 then w else
      let o := w.obsOf p
      if !o.seen then w else
      -- (`except=`: entries whose block nobody serves at this point — not reachable, not owed)
      let except := namesToNums (arg toks "except")
      let missing := w.acked.filter (fun n => !o.values.contains n && !except.contains n)
      if missing.isEmpty then w else
        w.fail "C11" "wedged" s!"peer {p} still lacks {showNums (sortNums missing)} after an uncancelled request for the same or newer heads") w
  | "final10" =>
    -- C10: after the honest re-announcement every valid acknowledged write is visible everywhere
    w.stores.foldl (fun w (p, _) => if p ≥ 1000 then w else
      let o := w.obsOf p
      if !o.seen then w else
      let missing := w.acked.filter (fun n => !o.values.contains n)
      if missing.isEmpty then w else
        w.fail "C10" "blocked" s!"peer {p} still lacks valid acknowledged writes {showNums (sortNums missing)} after an honest re-announcement") w
  | "sub" =>
    -- C09: a store that does not listen on the topic of its own address shares a channel with other databases
    w.fail "C09" "channel" s!"peer {toks.getD 1 ""}: a store that was just opened is not subscribed to the topic named by its address"
  | "msg" => w.onMsg toks
  | "delivered" => w.onDelivered toks
  | "restarted" => w.onRestarted toks
  | "blockgone" => { w with gone := entryNum (toks.getD 1 "") :: w.gone }
  | "panic" => w.fail "C12" "panic" (" ".intercalate (toks.drop 1))
  | "end" => { w with out := w.out.push s!"done scn={w.scn} fails={w.nFail} obs={w.nObs} entries={w.entries.size}" }
  | _ => w

end Orbit.Driver
