import OrbitModel.Driver.Addr
open Orbit.Driver

partial def loop (h : IO.FS.Stream) (f : Full) : IO Unit := do
  let line ← h.getLine
  if line.isEmpty then return ()
  let f := f.step (line.trimAscii.toString)
  for o in f.w.out do IO.println o
  loop h { f with w := { f.w with out := #[] } }

def main : IO Unit := do loop (← IO.getStdin) {}
