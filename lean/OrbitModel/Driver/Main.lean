import OrbitModel.Driver.Transport
open Orbit.Driver

partial def loop (h : IO.FS.Stream) (w : World) : IO Unit := do
  let line ← h.getLine
  if line.isEmpty then return ()
  let w := w.stepAll (line.trimAscii.toString)
  for o in w.out do IO.println o
  loop h { w with out := #[] }

def main : IO Unit := do loop (← IO.getStdin) {}
