import OrbitModel
import Lean
/-!
# Audit: axioms and proof-obligation cone of every property theorem

For every theorem declared in a namespace `Orbit.Cnn` (the property files), print one line
`AUDIT {"name": …, "axioms": […], "cone": n}` where `cone` is the number of *theorems of this
project* the property theorem transitively depends on (itself included): the obligations the kernel
discharged for it. Run with `lake env lean OrbitModel/Audit.lean`.
-/
open Lean Elab Command

def isProjectModule (env : Environment) (n : Name) : Bool :=
  match env.getModuleIdxFor? n with
  | some idx => (env.header.moduleNames[idx.toNat]!).getRoot == `OrbitModel
  | none => false

partial def coneOf (env : Environment) (root : Name) : Array Name := Id.run do
  let mut visited : NameSet := {}
  let mut todo : Array Name := #[root]
  let mut thms : Array Name := #[]
  while !todo.isEmpty do
    let n := todo.back!
    todo := todo.pop
    if visited.contains n then continue
    visited := visited.insert n
    match env.find? n with
    | none => pure ()
    | some ci =>
      if !isProjectModule env n then continue
      if let .thmInfo _ := ci then thms := thms.push n
      let val : Option Expr := match ci with
        | .thmInfo v => some v.value | .defnInfo v => some v.value | .opaqueInfo v => some v.value | _ => none
      let used := ci.type.getUsedConstants ++ (match val with | some v => v.getUsedConstants | none => #[])
      for u in used do
        if !visited.contains u then todo := todo.push u
  return thms

def isPropertyName (n : Name) : Bool :=
  match n.components with
  | `Orbit :: c :: _ :: _ => let s := c.toString; s.length ≥ 3 && s.startsWith "C" && (s.drop 1).all Char.isDigit
  | _ => false

run_cmd do
  let env ← getEnv
  let mut names : Array Name := #[]
  for (n, ci) in env.constants.toList do
    if isPropertyName n && !n.isInternal then
      if let .thmInfo _ := ci then names := names.push n
  let sorted := names.qsort (fun a b => a.toString < b.toString)
  for n in sorted do
    let ax ← Lean.collectAxioms n
    let axs := ", ".intercalate (ax.toList.map (fun a => "\"" ++ a.toString ++ "\""))
    let cone := coneOf env n
    let cs := ", ".intercalate (cone.toList.map (fun a => "\"" ++ a.toString ++ "\""))
    logInfo m!"AUDIT \{\"name\": \"{n}\", \"axioms\": [{axs}], \"cone\": {cone.size}, \"cone_names\": [{cs}]}"
