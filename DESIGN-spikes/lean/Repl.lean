/-! Spike: the replicator's task table / queue / buffer / workers as a transition system,
    together with the store's `replicationLoadComplete`. Scheduler choices are the action list. -/
namespace Repl

inductive TS | added | fetching | fetched
deriving DecidableEq, Repr

inductive PC | waitSlot | fetching (h : Nat)
deriving DecidableEq, Repr

structure Worker where
  ctx : Nat
  pc  : PC
deriving DecidableEq, Repr

/-- what the network knows about a hash: its links (next ++ refs) and whether Join accepts it -/
structure Info where
  links : List Nat
  valid : Bool

structure St where
  log        : List Nat := []            -- hashes in the store's oplog
  tasks      : List (Nat × TS) := []
  queue      : List Nat := []
  buffer     : List Nat := []            -- single-entry logs, completion order
  sem        : Nat := 2
  inProgress : Nat := 0
  workers    : List Worker := []
  cancelled  : List Nat := []
  pending    : List (List Nat) := []     -- LoadEnd events not yet handled by the store main loop
deriving Repr

def task (s : St) (h : Nat) : Option TS := (s.tasks.find? (·.1 == h)).map (·.2)
def setTask (s : St) (h : Nat) (t : TS) : St :=
  { s with tasks := (h, t) :: s.tasks.filter (·.1 != h) }

/-- AddEntryToQueue / AddHashToQueue + spawn one worker bound to `ctx` -/
def enqueue (ctx : Nat) (s : St) (h : Nat) : St :=
  if s.log.contains h || (task s h).isSome then s
  else { setTask s h .added with queue := s.queue ++ [h], workers := s.workers ++ [⟨ctx, .waitSlot⟩] }

def isIdle (s : St) : Bool :=
  if s.inProgress > 0 && s.queue.length > 0 then false
  else s.tasks.all (fun p => p.2 == .fetched)

/-- processEntryDone: mark fetched, maybe flush the buffer as a LoadEnd, release the slot -/
def done (s : St) (h : Nat) : St :=
  let s := { setTask s h .fetched with inProgress := s.inProgress - 1 }
  let s := if isIdle s && !s.buffer.isEmpty then { s with pending := s.pending ++ [s.buffer], buffer := [] } else s
  { s with sem := s.sem + 1 }

inductive Act
  | load (ctx : Nat) (hs : List Nat)
  | cancel (ctx : Nat)
  | acquire (i : Nat)        -- worker i leaves waitForProcessSlot (or dies there if its ctx is done)
  | fetchOk (i : Nat)        -- worker i's fetch returns the entry
  | fetchFail (i : Nat)      -- worker i's fetch fails (cancelled / unavailable)
  | deliver                  -- store main loop handles the oldest LoadEnd

def removeAt (l : List α) (i : Nat) : List α := l.take i ++ l.drop (i+1)

def step (net : Nat → Info) (s : St) : Act → St
  | .load ctx hs => hs.foldl (enqueue ctx) s
  | .cancel ctx => { s with cancelled := ctx :: s.cancelled }
  | .acquire i =>
    match s.workers[i]? with
    | some ⟨ctx, .waitSlot⟩ =>
      if s.cancelled.contains ctx then { s with workers := removeAt s.workers i }   -- Acquire fails, worker exits
      else if s.sem = 0 then s
      else match s.queue with
        | [] => s
        | h :: q =>
          let s := { setTask s h .fetching with queue := q, sem := s.sem - 1, inProgress := s.inProgress + 1 }
          { s with workers := s.workers.set i ⟨ctx, .fetching h⟩ }
    | _ => s
  | .fetchOk i =>
    match s.workers[i]? with
    | some ⟨ctx, .fetching h⟩ =>
      if s.cancelled.contains ctx then s else
      let s := { s with workers := removeAt s.workers i, buffer := s.buffer ++ [h] }
      let s := (net h).links.foldl (enqueue ctx) s
      done s h
    | _ => s
  | .fetchFail i =>
    match s.workers[i]? with
    | some ⟨_, .fetching h⟩ => done { s with workers := removeAt s.workers i } h
    | _ => s
  | .deliver =>
    match s.pending with
    | [] => s
    | batch :: rest =>
      -- replicationLoadComplete: join one by one, abort everything at the first rejected log
      let rec go (log : List Nat) : List Nat → List Nat
        | [] => log
        | h :: hs => if (net h).valid then go (if log.contains h then log else log ++ [h]) hs else log
      { s with pending := rest, log := go s.log batch }

def run (net : Nat → Info) (acts : List Act) : St := acts.foldl (step net) {}

/-- chain 1 ← 2 ← 3 of valid entries; 9 is rejected by Join (e.g. non-writer) -/
def net : Nat → Info
  | 1 => ⟨[], true⟩
  | 2 => ⟨[1], true⟩
  | 3 => ⟨[2], true⟩
  | 9 => ⟨[], false⟩
  | _ => ⟨[], false⟩

/-- honest run: everything arrives -/
theorem honest_ok :
    (run net [.load 0 [3], .acquire 0, .fetchOk 0, .acquire 0, .fetchOk 0, .acquire 0, .fetchOk 0, .deliver]).log
      = [3, 2, 1] := by decide

/-- F7: one request whose context is already cancelled wedges the replicator for ever -/
def wedged : St :=
  run net [.cancel 0, .load 0 [2], .acquire 0,          -- the worker dies in waitForProcessSlot
           .load 1 [2],                                  -- same heads again: "already queued"
           .load 1 [3], .acquire 0, .fetchOk 0,          -- newer head: its worker picks up stale item 2
           .acquire 0, .fetchOk 0]                       -- the worker spawned for hash 1 picks up 3
theorem cancel_wedges :
    wedged.workers = [] ∧ wedged.pending = [] ∧ wedged.log = [] ∧ wedged.queue = [1] ∧ wedged.buffer = [2, 3] := by
  decide

/-- F6: a rejected head in the same batch, then an honest re-announcement, then a newer head -/
def net' : Nat → Info
  | 4 => ⟨[3], true⟩
  | h => net h
def afterMixed : St :=
  run net' [.load 0 [9, 3], .acquire 0, .acquire 1, .fetchOk 0, .fetchOk 0,   -- 9 then 3 complete
            .acquire 0, .fetchOk 0, .acquire 0, .fetchOk 0, .deliver,          -- 2, 1; batch [9,3,2,1] aborted at 9
            .load 1 [3],                                                       -- honest re-announcement: ignored
            .load 1 [4], .acquire 0, .fetchOk 0, .deliver]                     -- newer head brings only itself
theorem mixed_blocks_valid : afterMixed.log = [4] ∧ afterMixed.workers = [] ∧ afterMixed.queue = [] := by decide

end Repl
#print axioms Repl.cancel_wedges
