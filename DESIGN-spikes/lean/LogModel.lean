/-! Spike: concrete go-ipfs-log `Join` (difference, FindHeads, Next index) and the heads invariant. -/
namespace LogM

structure Entry where
  hash  : Nat
  logId : Nat
  time  : Nat
  cid   : Nat
  next  : List Nat
deriving DecidableEq, Repr

abbrev OMap := List Entry            -- insertion-ordered map keyed by hash

def has (m : OMap) (h : Nat) : Bool := m.any (fun e => e.hash == h)
def get (m : OMap) (h : Nat) : Option Entry := m.find? (fun e => e.hash == h)
/-- `OrderedMap.Set`: keep position if the key exists (value identical under hash-determinism) -/
def set (m : OMap) (e : Entry) : OMap := if has m e.hash then m else m ++ [e]
def merge (a b : OMap) : OMap := b.foldl set a
def nexts (m : OMap) : List Nat := m.flatMap (fun e => e.next)

structure Log where
  id      : Nat
  entries : OMap
  heads   : OMap
  nextIdx : List Nat
  clock   : Nat
deriving Repr

/-- push the next links that are neither traversed nor already held -/
def pushNext (held : OMap) (ns : List Nat) (stack trav : List Nat) : List Nat × List Nat :=
  ns.foldl (fun (acc : List Nat × List Nat) n =>
    if acc.2.contains n || has held n then acc else (acc.1 ++ [n], n :: acc.2)) (stack, trav)

def diffLoop (A : OMap) (L : Log) : Nat → List Nat → List Nat → OMap → OMap
  | 0, _, _, res => res
  | _+1, [], _, res => res
  | f+1, h :: stack, trav, res =>
    match get A h with
    | some eA =>
      if !has L.entries h && eA.logId == L.id then
        let r := pushNext L.entries eA.next stack (h :: trav)
        diffLoop A L f r.1 r.2 (set res eA)
      else diffLoop A L f stack trav res
    | none => diffLoop A L f stack trav res

def difference (A : OMap) (headsA : OMap) (L : Log) : OMap :=
  diffLoop A L (headsA.length + (nexts A).length + 1) (headsA.map (·.hash)) [] []

def findHeads (m : OMap) : OMap := m.filter (fun e => !(nexts m).contains e.hash)

/-- `Join` without the size trim and with verification abstracted away (all new items accepted) -/
def join (L : Log) (Aentries Aheads : OMap) (Aid : Nat) : Log :=
  if Aid != L.id then L else
  let newItems := difference Aentries Aheads L
  let entries' := merge L.entries newItems
  let nextIdx' := L.nextIdx ++ nexts newItems
  let merged := findHeads (merge L.heads Aheads)
  let heads' := merged.filter (fun e => !(nexts newItems).contains e.hash && !nextIdx'.contains e.hash)
  let maxT := heads'.foldl (fun m e => max m e.time) 0
  { L with entries := entries', heads := heads', nextIdx := nextIdx', clock := max L.clock maxT }

end LogM

open LogM in
#eval
  let a : Entry := ⟨1, 9, 1, 0, []⟩
  let b : Entry := ⟨2, 9, 2, 0, [1]⟩
  let c : Entry := ⟨3, 9, 3, 0, [2]⟩
  let L0 : Log := ⟨9, [], [], [], 0⟩
  let L1 := join L0 [a] [a] 9
  let L2 := join L1 [c] [c] 9
  let L3 := join L2 [b] [b] 9
  (L1.heads.map (·.hash), L2.heads.map (·.hash), L3.heads.map (·.hash), L3.entries.map (·.hash))
