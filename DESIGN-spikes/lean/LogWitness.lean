import Lspike.LogModel
namespace LogM
def a : Entry := ⟨1, 9, 1, 0, []⟩
def x : Entry := ⟨5, 7, 5, 1, []⟩          -- written for log 7, wrapped in a log object that claims id 9
def L1 : Log := join ⟨9, [], [], [], 0⟩ [a] [a] 9
def L2 : Log := join L1 [x] [x] 9
/-- Finding F4 in the model: the foreign entry is never added to `entries` (so never verified) yet becomes a head -/
theorem foreign_head_witness : x ∉ L2.entries ∧ x ∈ L2.heads := by decide
end LogM
#print axioms LogM.foreign_head_witness
