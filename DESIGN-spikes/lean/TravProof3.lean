import Lspike.TravProof2
set_option linter.unusedSectionVars false
namespace Trav
variable {α : Type} [DecidableEq α]

/-- hypotheses on the entry set `S`, its `roots` (heads) and `children` (next links present in S) -/
structure Shape (lt : α → α → Bool) (children : α → List α) (S roots : List α) : Prop where
  ord      : StrictTotal lt
  snodup   : S.Nodup
  rnodup   : roots.Nodup
  rootsIn  : ∀ r ∈ roots, r ∈ S
  kidsIn   : ∀ p ∈ S, ∀ c ∈ children p, c ∈ S ∧ lt c p = true
  covered  : ∀ x ∈ S, x ∈ roots ∨ ∃ p ∈ S, x ∈ children p
  rootFree : ∀ p ∈ S, ∀ c ∈ children p, c ∉ roots

structure Inv (lt : α → α → Bool) (children : α → List α) (S roots : List α) (s : St α) : Prop where
  sdesc   : Desc lt s.stack
  sIn     : ∀ x ∈ s.stack, x ∈ S ∧ x ∉ s.out
  odesc   : Desc lt s.out
  oIn     : ∀ x ∈ s.out, x ∈ S
  oBig    : ∀ o ∈ s.out, ∀ x ∈ S, x ∉ s.out → lt x o = true
  rootsAcc : ∀ r ∈ roots, r ∈ s.stack ∨ r ∈ s.out
  kidsAcc : ∀ p ∈ s.out, ∀ c ∈ children p, c ∈ s.stack ∨ c ∈ s.out
  seenAcc : ∀ x ∈ s.seen, x ∈ s.stack ∨ x ∈ s.out
  stackSeen : ∀ x ∈ s.stack, x ∈ roots ∨ x ∈ s.seen
  outSeen : ∀ x ∈ s.out, x ∈ s.seen

variable {lt : α → α → Bool} {children : α → List α} {S roots : List α}

/-- every remaining element is below-or-equal some stack element -/
theorem bounded (hS : Shape lt children S roots) {s : St α} (hI : Inv lt children S roots s) :
    ∀ (n : Nat) (x : α), x ∈ S → x ∉ s.out → (S.filter (fun y => lt x y)).length ≤ n →
      ∃ t ∈ s.stack, x = t ∨ lt x t = true := by
  intro n
  induction n with
  | zero =>
    intro x hx hxo hlen
    rcases hS.covered x hx with hr | ⟨p, hp, hc⟩
    · rcases hI.rootsAcc x hr with h | h
      · exact ⟨x, h, Or.inl rfl⟩
      · exact absurd h hxo
    · have hlt := (hS.kidsIn p hp x hc).2
      have : p ∈ S.filter (fun y => lt x y) := List.mem_filter.mpr ⟨hp, hlt⟩
      have : 0 < (S.filter (fun y => lt x y)).length := List.length_pos_of_mem this
      omega
  | succ n ih =>
    intro x hx hxo hlen
    rcases hS.covered x hx with hr | ⟨p, hp, hc⟩
    · rcases hI.rootsAcc x hr with h | h
      · exact ⟨x, h, Or.inl rfl⟩
      · exact absurd h hxo
    · have hlt := (hS.kidsIn p hp x hc).2
      by_cases hpo : p ∈ s.out
      · rcases hI.kidsAcc p hpo x hc with h | h
        · exact ⟨x, h, Or.inl rfl⟩
        · exact absurd h hxo
      · -- p remains and has strictly fewer elements above it
        have hsub : ∀ y, y ∈ S.filter (fun y => lt p y) → y ∈ S.filter (fun y => lt x y) := by
          intro y hy
          have := List.mem_filter.mp hy
          exact List.mem_filter.mpr ⟨this.1, hS.ord.trans _ _ _ hlt this.2⟩
        have hpmem : p ∈ S.filter (fun y => lt x y) := List.mem_filter.mpr ⟨hp, hlt⟩
        have hpnot : p ∉ S.filter (fun y => lt p y) := by
          intro h; have := (List.mem_filter.mp h).2; simp [hS.ord.irrefl] at this
        have hlt_len : (S.filter (fun y => lt p y)).length < (S.filter (fun y => lt x y)).length := by
          have hnd1 : (S.filter (fun y => lt p y)).Nodup := hS.snodup.filter _
          have hnd2 : (p :: S.filter (fun y => lt p y)).Nodup := List.nodup_cons.mpr ⟨hpnot, hnd1⟩
          have hsub2 : (p :: S.filter (fun y => lt p y)) ⊆ S.filter (fun y => lt x y) := by
            intro y hy
            rcases List.mem_cons.mp hy with rfl | hy
            · exact hpmem
            · exact hsub y hy
          have := List.Nodup.length_le_of_subset hnd2 hsub2
          simp at this; omega
        obtain ⟨t, ht, hpt⟩ := ih p hp hpo (by omega)
        refine ⟨t, ht, Or.inr ?_⟩
        rcases hpt with rfl | hpt
        · exact hlt
        · exact hS.ord.trans _ _ _ hlt hpt

theorem top_is_max (hS : Shape lt children S roots) {s : St α} (hI : Inv lt children S roots s)
    {e : α} {rest : List α} (hst : s.stack = e :: rest) :
    ∀ x ∈ S, x ∉ s.out → x ≠ e → lt x e = true := by
  intro x hx hxo hne
  obtain ⟨t, ht, hxt⟩ := bounded hS hI _ x hx hxo (Nat.le_refl _)
  have hd := hI.sdesc
  rw [hst] at ht hd
  have hall := (List.pairwise_cons.mp hd).1
  rcases List.mem_cons.mp ht with rfl | ht
  · rcases hxt with rfl | hxt
    · exact absurd rfl hne
    · exact hxt
  · have hte := hall t ht
    rcases hxt with rfl | hxt
    · exact hte
    · exact hS.ord.trans _ _ _ hxt hte

end Trav
