/-! Spike: refutation witness pattern for the legacy emitter (direct send races the drainer). -/
namespace Emit
structure St where
  chan  : List Nat := []      -- buffered channel (cap c), head = oldest
  queue : List Nat := []      -- overflow queue
  hold  : Option Nat := none  -- drainer has dequeued this, lock released, not yet sent
  out   : List Nat := []      -- what the subscriber has read, oldest first
inductive Act | fwd (e : Nat) | deq | send | read
def step (c : Nat) (s : St) : Act → St
  | .fwd e => if s.queue.isEmpty && s.chan.length < c then { s with chan := s.chan ++ [e] }
              else { s with queue := s.queue ++ [e] }
  | .deq   => match s.hold, s.queue with
              | none, e :: q => { s with hold := some e, queue := q }
              | _, _ => s
  | .send  => match s.hold with
              | some e => if s.chan.length < c then { s with chan := s.chan ++ [e], hold := none } else s
              | none => s
  | .read  => match s.chan with
              | e :: ch => { s with chan := ch, out := s.out ++ [e] }
              | [] => s
def run (c : Nat) (acts : List Act) : St := acts.foldl (step c) {}
/-- capacity 1: e0 fills the channel, e1 overflows, drainer takes e1, reader frees the slot, e2 jumps the queue -/
theorem reorder_witness :
    (run 1 [.fwd 0, .fwd 1, .deq, .read, .fwd 2, .read, .send, .read]).out = [0, 2, 1] := by decide
end Emit
#print axioms Emit.reorder_witness
