import Lspike.LogProof
namespace LogM

theorem pushNext_stack (held : OMap) (ns : List Nat) : ∀ (stack trav : List Nat) (x : Nat),
    x ∈ (pushNext held ns stack trav).1 → x ∈ stack ∨ x ∈ ns := by
  induction ns with
  | nil => intro stack trav x hx; left; simpa [pushNext] using hx
  | cons n ns ih =>
    intro stack trav x hx
    have hunf : pushNext held (n :: ns) stack trav =
        if trav.contains n || has held n then pushNext held ns stack trav
        else pushNext held ns (stack ++ [n]) (n :: trav) := by
      simp only [pushNext, List.foldl_cons]
      split <;> rfl
    rw [hunf] at hx
    split at hx
    · rcases ih stack trav x hx with h | h
      · exact Or.inl h
      · exact Or.inr (List.mem_cons_of_mem _ h)
    · rcases ih (stack ++ [n]) (n :: trav) x hx with h | h
      · rcases List.mem_append.mp h with h | h
        · exact Or.inl h
        · simp at h; exact Or.inr (h ▸ List.mem_cons_self)
      · exact Or.inr (List.mem_cons_of_mem _ h)

/-- what `difference` guarantees about every item it returns -/
structure DiffOK (A : OMap) (L : Log) (init : List Nat) (stack : List Nat) (res : OMap) : Prop where
  item  : ∀ e ∈ res, e ∈ A ∧ has L.entries e.hash = false ∧ e.logId = L.id
  stk   : ∀ h ∈ stack, h ∈ init ∨ ∃ e' ∈ res, h ∈ e'.next
  why   : ∀ e ∈ res, e.hash ∈ init ∨ ∃ e' ∈ res, e.hash ∈ e'.next

theorem diffLoop_ok {A : OMap} (hA : HashDet A) (L : Log) (init : List Nat) :
    ∀ (fuel : Nat) (stack trav : List Nat) (res : OMap),
      DiffOK A L init stack res → DiffOK A L init [] (diffLoop A L fuel stack trav res) := by
  intro fuel
  induction fuel with
  | zero =>
    intro stack trav res h
    exact ⟨h.item, by simp, h.why⟩
  | succ f ih =>
    intro stack trav res h
    cases stack with
    | nil => exact ⟨h.item, by simp, h.why⟩
    | cons hd stack =>
      simp only [diffLoop]
      cases hg : get A hd with
      | none =>
        exact ih stack trav res ⟨h.item, fun x hx => h.stk x (List.mem_cons_of_mem _ hx), h.why⟩
      | some eA =>
        obtain ⟨heA, hhash⟩ := get_some hg
        simp only
        split
        · rename_i hcond
          simp only [Bool.and_eq_true, Bool.not_eq_true', beq_iff_eq] at hcond
          apply ih
          have hin : eA ∈ set res eA := by
            cases hh : has res eA.hash
            · exact (mem_set res eA eA).mpr (Or.inr ⟨rfl, hh⟩)
            · obtain ⟨y, hy, hyh⟩ := (has_iff res eA.hash).mp hh
              have : y = eA := hA y (h.item y hy).1 eA heA hyh
              exact (mem_set res eA eA).mpr (Or.inl (this ▸ hy))
          constructor
          · intro e he
            rcases (mem_set res eA e).mp he with he | ⟨rfl, _⟩
            · exact h.item e he
            · exact ⟨heA, by rw [hhash]; exact hcond.1, hcond.2⟩
          · intro x hx
            rcases pushNext_stack L.entries eA.next stack (hd :: trav) x hx with hx | hx
            · rcases h.stk x (List.mem_cons_of_mem _ hx) with h1 | ⟨e', he', hn⟩
              · exact Or.inl h1
              · exact Or.inr ⟨e', (mem_set res eA e').mpr (Or.inl he'), hn⟩
            · exact Or.inr ⟨eA, hin, hx⟩
          · intro e he
            rcases (mem_set res eA e).mp he with he | ⟨rfl, _⟩
            · rcases h.why e he with h1 | ⟨e', he', hn⟩
              · exact Or.inl h1
              · exact Or.inr ⟨e', (mem_set res eA e').mpr (Or.inl he'), hn⟩
            · rcases h.stk hd List.mem_cons_self with h1 | ⟨e', he', hn⟩
              · exact Or.inl (hhash ▸ h1)
              · exact Or.inr ⟨e', (mem_set res e e').mpr (Or.inl he'), hhash ▸ hn⟩
        · exact ih stack trav res ⟨h.item, fun x hx => h.stk x (List.mem_cons_of_mem _ hx), h.why⟩

theorem difference_ok {A : OMap} (hA : HashDet A) (headsA : OMap) (L : Log) :
    DiffOK A L (headsA.map (·.hash)) [] (difference A headsA L) := by
  unfold difference
  apply diffLoop_ok hA
  exact ⟨by simp, fun h hh => Or.inl hh, by simp⟩

end LogM
