import Lspike.TravProof3
set_option linter.unusedSectionVars false
namespace Trav
variable {α : Type} [DecidableEq α]
variable {lt : α → α → Bool} {children : α → List α} {S roots : List α}

theorem desc_append_singleton (hord : StrictTotal lt) {l : List α} {e : α} (hl : Desc lt l)
    (h : ∀ o ∈ l, lt e o = true) : Desc lt (l ++ [e]) := by
  unfold Desc at *
  apply List.pairwise_append.mpr
  refine ⟨hl, by simp, ?_⟩
  intro a ha b hb
  simp at hb; subst hb
  exact h a ha

theorem step_inv (hS : Shape lt children S roots) {s : St α} (hI : Inv lt children S roots s)
    {e : α} {rest : List α} (hst : s.stack = e :: rest) :
    Inv lt children S roots (step lt children s) ∧ (step lt children s).out = s.out ++ [e] := by
  have heS := (hI.sIn e (by rw [hst]; exact List.mem_cons_self)).1
  have heo := (hI.sIn e (by rw [hst]; exact List.mem_cons_self)).2
  have hmax := top_is_max hS hI hst
  have hd := hI.sdesc; rw [hst] at hd
  have hrestd : Desc lt rest := (List.pairwise_cons.mp hd).2
  have hrestlt := (List.pairwise_cons.mp hd).1
  have hrestnd : rest.Nodup := desc_nodup hS.ord hrestd
  have henr : e ∉ rest := by
    intro h; have := hrestlt e h; simp [hS.ord.irrefl] at this
  obtain ⟨k2, k1, k3⟩ := pushKids_spec (children e) rest (e :: s.seen)
  -- children of e are not in rest unless already seen
  have hkids_seen : ∀ x ∈ rest, x ∈ children e → x ∈ e :: s.seen := by
    intro x hx hk
    rcases hI.stackSeen x (by rw [hst]; exact List.mem_cons_of_mem _ hx) with hr | hs
    · exact absurd hr (hS.rootFree e heS x hk)
    · exact List.mem_cons_of_mem _ hs
  have hstknd := k3 hrestnd hkids_seen
  have hstep : step lt children s =
      { stack := sortDesc lt (pushKids (children e) rest (e :: s.seen)).1,
        seen := (pushKids (children e) rest (e :: s.seen)).2,
        out := s.out ++ [e] } := by
    unfold step; rw [hst]; simp [heo]
  rw [hstep]
  refine ⟨?_, rfl⟩
  constructor
  · exact desc_sortDesc hS.ord _ hstknd
  · intro x hx
    simp only at hx ⊢
    rw [mem_sortDesc, k1] at hx
    rcases hx with hx | ⟨hk, hns⟩
    · have := hI.sIn x (by rw [hst]; exact List.mem_cons_of_mem _ hx)
      refine ⟨this.1, ?_⟩
      simp only [List.mem_append, List.mem_singleton, not_or]
      exact ⟨this.2, fun h => henr (h ▸ hx)⟩
    · refine ⟨(hS.kidsIn e heS x hk).1, ?_⟩
      simp only [List.mem_cons, not_or] at hns
      simp only [List.mem_append, List.mem_singleton, not_or]
      exact ⟨fun h => hns.2 (hI.outSeen x h), hns.1⟩
  · exact desc_append_singleton hS.ord hI.odesc (fun o ho => hI.oBig o ho e heS heo)
  · intro x hx
    simp only [List.mem_append, List.mem_singleton] at hx
    rcases hx with hx | rfl
    · exact hI.oIn x hx
    · exact heS
  · intro o ho x hx hxo
    simp only [List.mem_append, List.mem_singleton, not_or] at ho hxo
    rcases ho with ho | rfl
    · exact hI.oBig o ho x hx hxo.1
    · exact hmax x hx hxo.1 hxo.2
  · intro r hr
    simp only [List.mem_append, List.mem_singleton]
    rw [mem_sortDesc, k1]
    rcases hI.rootsAcc r hr with h | h
    · rw [hst] at h
      rcases List.mem_cons.mp h with rfl | h
      · exact Or.inr (Or.inr rfl)
      · exact Or.inl (Or.inl h)
    · exact Or.inr (Or.inl h)
  · intro p hp c hc
    simp only [List.mem_append, List.mem_singleton] at hp ⊢
    rw [mem_sortDesc, k1]
    rcases hp with hp | rfl
    · rcases hI.kidsAcc p hp c hc with h | h
      · rw [hst] at h
        rcases List.mem_cons.mp h with rfl | h
        · exact Or.inr (Or.inr rfl)
        · exact Or.inl (Or.inl h)
      · exact Or.inr (Or.inl h)
    · -- children of the popped element: pushed, or already seen hence accounted
      by_cases hcs : c ∈ p :: s.seen
      · rcases List.mem_cons.mp hcs with rfl | hcs
        · exact Or.inr (Or.inr rfl)
        · rcases hI.seenAcc c hcs with h | h
          · rw [hst] at h
            rcases List.mem_cons.mp h with rfl | h
            · exact Or.inr (Or.inr rfl)
            · exact Or.inl (Or.inl h)
          · exact Or.inr (Or.inl h)
      · exact Or.inl (Or.inr ⟨hc, hcs⟩)
  · intro x hx
    simp only [List.mem_append, List.mem_singleton] at ⊢
    rw [mem_sortDesc, k1]
    rw [k2] at hx
    rcases hx with hx | hx
    · rcases List.mem_cons.mp hx with rfl | hx
      · exact Or.inr (Or.inr rfl)
      · rcases hI.seenAcc x hx with h | h
        · rw [hst] at h
          rcases List.mem_cons.mp h with rfl | h
          · exact Or.inr (Or.inr rfl)
          · exact Or.inl (Or.inl h)
        · exact Or.inr (Or.inl h)
    · by_cases hcs : x ∈ e :: s.seen
      · rcases List.mem_cons.mp hcs with rfl | hcs
        · exact Or.inr (Or.inr rfl)
        · rcases hI.seenAcc x hcs with h | h
          · rw [hst] at h
            rcases List.mem_cons.mp h with rfl | h
            · exact Or.inr (Or.inr rfl)
            · exact Or.inl (Or.inl h)
          · exact Or.inr (Or.inl h)
      · exact Or.inl (Or.inr ⟨hx, hcs⟩)
  · intro x hx
    simp only at hx ⊢
    rw [mem_sortDesc, k1] at hx
    rw [k2]
    rcases hx with hx | ⟨hk, _⟩
    · rcases hI.stackSeen x (by rw [hst]; exact List.mem_cons_of_mem _ hx) with h | h
      · exact Or.inl h
      · exact Or.inr (Or.inl (List.mem_cons_of_mem _ h))
    · exact Or.inr (Or.inr hk)
  · intro x hx
    simp only [List.mem_append, List.mem_singleton] at hx
    simp only
    rw [k2]
    rcases hx with hx | rfl
    · exact Or.inl (List.mem_cons_of_mem _ (hI.outSeen x hx))
    · exact Or.inl List.mem_cons_self

end Trav
