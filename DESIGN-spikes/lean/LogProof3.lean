import Lspike.LogProof2
namespace LogM

/-- heads are exactly the unreferenced members; the Next index is exactly the referenced hashes -/
structure Inv (U : List Entry) (L : Log) : Prop where
  sub   : ∀ e ∈ L.entries, e ∈ U
  heads : ∀ e, e ∈ L.heads ↔ (e ∈ L.entries ∧ e.hash ∉ nexts L.entries)
  nidx  : ∀ h, h ∈ L.nextIdx ↔ h ∈ nexts L.entries

/-- an honest incoming log: drawn from the universe, its heads are members -/
structure Honest (U : List Entry) (A heads : OMap) : Prop where
  sub   : ∀ e ∈ A, e ∈ U
  hsub  : ∀ e ∈ heads, e ∈ A

theorem hashDet_sub {U : List Entry} (hU : HashDet U) {A : OMap} (h : ∀ e ∈ A, e ∈ U) : HashDet A :=
  fun e he e' he' hh => hU e (h e he) e' (h e' he') hh

theorem inv_join {U : List Entry} (hU : HashDet U) (L : Log) (A headsA : OMap) (Aid : Nat)
    (hI : Inv U L) (hA : Honest U A headsA)
    -- heads completeness: every incoming head is already held or is among the new items.
    -- This is exactly what fails for an entry of a foreign log id (finding F4); to be derived from
    -- `∀ e ∈ A, e.logId = L.id` and sufficiency of `difference`'s fuel.
    (hcomplete : ∀ e ∈ headsA, e ∈ L.entries ∨ e ∈ difference A headsA L) :
    Inv U (join L A headsA Aid) := by
  unfold join
  split
  · exact hI
  · have hAd : HashDet A := hashDet_sub hU hA.sub
    have hD := difference_ok hAd headsA L
    generalize difference A headsA L = N at hD hcomplete
    have hNU : ∀ e ∈ N, e ∈ U := fun e he => hA.sub e (hD.item e he).1
    have hHU : ∀ e ∈ headsA, e ∈ U := fun e he => hA.sub e (hA.hsub e he)
    have hLhU : ∀ e ∈ L.heads, e ∈ U := fun e he => hI.sub e ((hI.heads e).mp he).1
    -- membership in the merged entry map
    have hmemE : ∀ e, e ∈ merge L.entries N ↔ e ∈ L.entries ∨ e ∈ N := by
      intro e; constructor
      · exact mem_merge _ _ e
      · rintro (h | h)
        · exact mem_merge_of_left _ _ e h
        · exact mem_merge_of_right hU _ _ hI.sub hNU e h
    have hnx : ∀ h, h ∈ nexts (merge L.entries N) ↔ h ∈ nexts L.entries ∨ h ∈ nexts N := by
      intro h; simp only [mem_nexts]
      constructor
      · rintro ⟨e, he, hn⟩
        rcases (hmemE e).mp he with h1 | h1
        · exact Or.inl ⟨e, h1, hn⟩
        · exact Or.inr ⟨e, h1, hn⟩
      · rintro (⟨e, he, hn⟩ | ⟨e, he, hn⟩)
        · exact ⟨e, (hmemE e).mpr (Or.inl he), hn⟩
        · exact ⟨e, (hmemE e).mpr (Or.inr he), hn⟩
    have hmemH : ∀ e, e ∈ merge L.heads headsA ↔ e ∈ L.heads ∨ e ∈ headsA := by
      intro e; constructor
      · exact mem_merge _ _ e
      · rintro (h | h)
        · exact mem_merge_of_left _ _ e h
        · exact mem_merge_of_right hU _ _ hLhU hHU e h
    constructor
    · intro e he
      rcases (hmemE e).mp he with h | h
      · exact hI.sub e h
      · exact hNU e h
    · intro e
      simp only [List.mem_filter, mem_findHeads, Bool.and_eq_true, Bool.not_eq_true',
        List.contains_eq_mem, decide_eq_false_iff_not, List.mem_append, not_or, hmemH, hmemE, hnx, hI.nidx]
      constructor
      · rintro ⟨⟨hmem, _⟩, hnN, hnL, _⟩
        refine ⟨?_, hnL, hnN⟩
        rcases hmem with hmem | hmem
        · exact Or.inl ((hI.heads e).mp hmem).1
        · exact hcomplete e hmem
      · rintro ⟨hmem, hnL, hnN⟩
        refine ⟨⟨?_, ?_⟩, hnN, hnL, hnN⟩
        · rcases hmem with hmem | hmem
          · exact Or.inl ((hI.heads e).mpr ⟨hmem, hnL⟩)
          · rcases hD.why e hmem with hinit | ⟨e', he', hn⟩
            · simp only [List.mem_map] at hinit
              obtain ⟨x, hx, hxh⟩ := hinit
              have : x = e := hU x (hHU x hx) e (hNU e hmem) hxh
              exact Or.inr (this ▸ hx)
            · exact absurd ((mem_nexts N e.hash).mpr ⟨e', he', hn⟩) hnN
        · -- unreferenced inside heads ∪ headsA because unreferenced in all entries
          simp only [mem_nexts, hmemH]
          rintro ⟨x, hx, hn⟩
          rcases hx with hx | hx
          · exact hnL ((mem_nexts _ _).mpr ⟨x, ((hI.heads x).mp hx).1, hn⟩)
          · rcases hcomplete x hx with hx' | hx'
            · exact hnL ((mem_nexts _ _).mpr ⟨x, hx', hn⟩)
            · exact hnN ((mem_nexts _ _).mpr ⟨x, hx', hn⟩)
    · intro h
      simp only [List.mem_append, hnx, hI.nidx]

end LogM

#print axioms LogM.inv_join
