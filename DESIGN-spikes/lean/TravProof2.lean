import Lspike.TravProof
set_option linter.unusedSectionVars false
namespace Trav
variable {α : Type} [DecidableEq α]

theorem pushKids_spec (kids : List α) : ∀ (stack seen : List α),
    (∀ x, x ∈ (pushKids kids stack seen).2 ↔ x ∈ seen ∨ x ∈ kids) ∧
    (∀ x, x ∈ (pushKids kids stack seen).1 ↔ x ∈ stack ∨ (x ∈ kids ∧ x ∉ seen)) ∧
    (stack.Nodup → (∀ x ∈ stack, x ∈ kids → x ∈ seen) → (pushKids kids stack seen).1.Nodup) := by
  induction kids with
  | nil => intro stack seen; simp [pushKids]
  | cons c cs ih =>
    intro stack seen
    have hunf : pushKids (c :: cs) stack seen =
        if c ∈ seen then pushKids cs stack seen else pushKids cs (c :: stack) (c :: seen) := by
      simp only [pushKids, List.foldl_cons]
      split <;> rfl
    rw [hunf]
    by_cases hc : c ∈ seen
    · simp only [hc, if_true]
      obtain ⟨h1, h2, h3⟩ := ih stack seen
      refine ⟨?_, ?_, ?_⟩
      · intro x; rw [h1]; simp only [List.mem_cons]
        constructor
        · rintro (h | h); exact Or.inl h; exact Or.inr (Or.inr h)
        · rintro (h | h | h); exact Or.inl h; exact Or.inl (h ▸ hc); exact Or.inr h
      · intro x; rw [h2]; simp only [List.mem_cons]
        constructor
        · rintro (h | ⟨h, hn⟩); exact Or.inl h; exact Or.inr ⟨Or.inr h, hn⟩
        · rintro (h | ⟨h | h, hn⟩)
          · exact Or.inl h
          · exact absurd (h ▸ hc) hn
          · exact Or.inr ⟨h, hn⟩
      · intro hnd hs
        exact h3 hnd (fun x hx hk => hs x hx (List.mem_cons_of_mem _ hk))
    · simp only [hc, if_false]
      obtain ⟨h1, h2, h3⟩ := ih (c :: stack) (c :: seen)
      refine ⟨?_, ?_, ?_⟩
      · intro x; rw [h1]; simp only [List.mem_cons]
        constructor
        · rintro ((h | h) | h); exact Or.inr (Or.inl h); exact Or.inl h; exact Or.inr (Or.inr h)
        · rintro (h | h | h); exact Or.inl (Or.inr h); exact Or.inl (Or.inl h); exact Or.inr h
      · intro x; rw [h2]; simp only [List.mem_cons, not_or]
        constructor
        · rintro ((h | h) | ⟨h, hn1, hn2⟩)
          · exact Or.inr ⟨Or.inl h, h ▸ hc⟩
          · exact Or.inl h
          · exact Or.inr ⟨Or.inr h, hn2⟩
        · rintro (h | ⟨h | h, hn⟩)
          · exact Or.inl (Or.inr h)
          · exact Or.inl (Or.inl h)
          · by_cases hxc : x = c
            · exact Or.inl (Or.inl hxc)
            · exact Or.inr ⟨h, hxc, hn⟩
      · intro hnd hs
        apply h3
        · apply List.nodup_cons.mpr
          refine ⟨?_, hnd⟩
          intro hm
          exact hc (hs c hm (List.mem_cons_self))
        · intro x hx hk
          rcases List.mem_cons.mp hx with rfl | hx
          · exact List.mem_cons_self
          · exact List.mem_cons_of_mem _ (hs x hx (List.mem_cons_of_mem _ hk))

end Trav
