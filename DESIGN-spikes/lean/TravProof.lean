import Lspike.Trav
namespace Trav
variable {α : Type} [DecidableEq α]

structure StrictTotal (lt : α → α → Bool) : Prop where
  irrefl : ∀ a, lt a a = false
  trans  : ∀ a b c, lt a b = true → lt b c = true → lt a c = true
  total  : ∀ a b, a ≠ b → lt a b = true ∨ lt b a = true

/-- strictly descending -/
def Desc (lt : α → α → Bool) (l : List α) : Prop := l.Pairwise (fun a b => lt b a = true)

theorem mem_insDesc (lt : α → α → Bool) (x y : α) (l : List α) :
    y ∈ insDesc lt x l ↔ y = x ∨ y ∈ l := by
  induction l with
  | nil => simp [insDesc]
  | cons z zs ih =>
    unfold insDesc
    split
    · simp
    · simp [ih]; constructor
      · rintro (h | h | h) <;> simp [h]
      · rintro (h | h | h) <;> simp [h]

theorem mem_sortDesc (lt : α → α → Bool) (y : α) (l : List α) :
    y ∈ sortDesc lt l ↔ y ∈ l := by
  induction l with
  | nil => simp [sortDesc]
  | cons z zs ih =>
    have : sortDesc lt (z :: zs) = insDesc lt z (sortDesc lt zs) := rfl
    rw [this, mem_insDesc, ih]; simp

theorem desc_insDesc {lt : α → α → Bool} (h : StrictTotal lt) (x : α) (l : List α)
    (hl : Desc lt l) (hx : x ∉ l) : Desc lt (insDesc lt x l) := by
  induction l with
  | nil => simp [insDesc, Desc]
  | cons z zs ih =>
    unfold insDesc
    have hz : Desc lt zs := (List.pairwise_cons.mp hl).2
    have hzall := (List.pairwise_cons.mp hl).1
    split
    · rename_i hlt
      apply List.pairwise_cons.mpr
      refine ⟨?_, hl⟩
      intro a ha
      rcases List.mem_cons.mp ha with rfl | ha
      · exact hlt
      · exact h.trans _ _ _ (hzall a ha) hlt
    · rename_i hlt
      have hne : x ≠ z := fun e => hx (by simp [e])
      have hxz : lt x z = true := by
        rcases h.total x z hne with h1 | h1
        · exact h1
        · exact absurd h1 hlt
      apply List.pairwise_cons.mpr
      refine ⟨?_, ih hz (fun hm => hx (List.mem_cons_of_mem _ hm))⟩
      intro a ha
      rcases (mem_insDesc lt x a zs).mp ha with rfl | ha
      · exact hxz
      · exact hzall a ha

theorem desc_sortDesc {lt : α → α → Bool} (h : StrictTotal lt) (l : List α) (hn : l.Nodup) :
    Desc lt (sortDesc lt l) := by
  induction l with
  | nil => simp [sortDesc, Desc]
  | cons z zs ih =>
    have : sortDesc lt (z :: zs) = insDesc lt z (sortDesc lt zs) := rfl
    rw [this]
    have hn' := List.nodup_cons.mp hn
    exact desc_insDesc h z _ (ih hn'.2) (fun hm => hn'.1 ((mem_sortDesc lt z zs).mp hm))

theorem desc_nodup {lt : α → α → Bool} (h : StrictTotal lt) {l : List α} (hl : Desc lt l) : l.Nodup := by
  unfold Desc at hl
  apply List.Pairwise.imp _ hl
  intro a b hab e
  subst e
  simp [h.irrefl] at hab

end Trav
