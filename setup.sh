#!/bin/sh
# Build the framework from files on disk only (offline).
set -e
cd "$(dirname "$0")"
exec ./check --setup
